"""Structural tie of phasegen/coalescent_models.py to the Coq model (second tie next to the
differential stream of C14): regenerate coq/theories/gen/CoalModelsGen.v from the CURRENT source
with /verif/translate/py2coq.py and re-check proofs/GenEquiv.v (equivalence of the generated
definitions with model/CoalModels.v and model/Validate.v) against it.

The committed generated file is never overwritten by a check (see run); `translate/py2coq.py --out` is how
it is refreshed by hand after an intended change of the source."""
import os
import re
import sys

import common as C

sys.path.insert(0, os.path.join(C.VERIF, 'translate'))
import py2coq  # noqa: E402
import rewards2coq  # noqa: E402
import transition2coq  # noqa: E402
import loops2coq  # noqa: E402
import moments2coq  # noqa: E402
import configs2coq  # noqa: E402
import cache2coq  # noqa: E402
import search2coq  # noqa: E402
import inference2coq  # noqa: E402
import guards2coq  # noqa: E402
import demography2coq  # noqa: E402
import sfs2coq  # noqa: E402
import marginals2coq  # noqa: E402
import statespace2coq  # noqa: E402
import mutation2coq  # noqa: E402
import coalescent2coq  # noqa: E402
import serial2coq  # noqa: E402
import utils2coq  # noqa: E402
import spectrum2coq  # noqa: E402
import norms2coq  # noqa: E402
import expm2coq  # noqa: E402

# one entry per translated source file: translator module, source, committed generated file, equivalence proofs
TIES = {
    'coalescent_models': dict(mod=py2coq, src='coalescent_models.py', gen='CoalModelsGen', equiv='GenEquiv'),
    'rewards': dict(mod=rewards2coq, src='rewards.py', gen='RewardsGen', equiv='GenRewardsEquiv'),
    'transition': dict(mod=transition2coq, src='state_space.py', gen='TransitionGen', equiv='GenTransitionEquiv'),
    'loops': dict(mod=loops2coq, src='distributions.py', gen='LoopsGen', equiv='GenLoopsEquiv'),
    'cache': dict(mod=cache2coq, src='state_space.py', gen='CacheGen', equiv='GenCacheEquiv'),
    'configs': dict(mod=configs2coq, src='', gen='ConfigsGen', equiv='GenConfigsEquiv', src_is_dir=True),
    'demography': dict(mod=demography2coq, src='demography.py', gen='DemographyGen', equiv='GenDemographyEquiv'),
    'sfs': dict(mod=sfs2coq, src='distributions.py', gen='SfsGen', equiv='GenSfsEquiv'),
    'marginals': dict(mod=marginals2coq, src='distributions.py', gen='MarginalsGen', equiv='GenMarginalsEquiv'),
    'statespace': dict(mod=statespace2coq, src='state_space.py', gen='StateSpaceGen', equiv='GenStateSpaceEquiv'),
    'coalescent': dict(mod=coalescent2coq, src='distributions.py', gen='CoalescentGen', equiv='GenCoalescentEquiv'),
    'expm': dict(mod=expm2coq, src='expm.py', gen='ExpmGen', equiv='GenExpmEquiv'),
    'norms': dict(mod=norms2coq, src='norms.py', gen='NormsGen', equiv='GenNormsEquiv'),
    'spectrum': dict(mod=spectrum2coq, src='spectrum.py', gen='SpectrumGen', equiv='GenSpectrumEquiv'),
    'utils': dict(mod=utils2coq, src='utils.py', gen='UtilsGen', equiv='GenUtilsEquiv'),
    'serial': dict(mod=serial2coq, src='', gen='SerialGen', equiv='GenSerialEquiv', src_is_dir=True),
    'mutation': dict(mod=mutation2coq, src='', gen='MutationGen', equiv='GenMutationEquiv', src_is_dir=True),
    'guards': dict(mod=guards2coq, src='', gen='GuardsGen', equiv='GenGuardsEquiv', src_is_dir=True),
    'inference': dict(mod=inference2coq, src='inference.py', gen='InferenceGen', equiv='GenInferenceEquiv'),
    'search': dict(mod=search2coq, src='distributions.py', gen='SearchGen', equiv='GenSearchEquiv'),
    'moments': dict(mod=moments2coq, src='distributions.py', gen='MomentsGen', equiv='GenMomentsEquiv'),
}


def _theorem_at(path, line):
    """name of the nearest Theorem/Lemma at or before `line` of a .v file"""
    name = None
    try:
        for i, l in enumerate(open(path), 1):
            if i > line:
                break
            m = re.match(r'\s*(?:Theorem|Lemma)\s+([A-Za-z0-9_\']+)', l)
            if m:
                name = m.group(1)
    except OSError:
        pass
    return name


def _build_errors(out):
    """[(file, line, theorem or None, message)] from coqc error locations in the make output"""
    errs = []
    for m in re.finditer(r'File "([^"]+)", line (\d+), characters [^\n]*\n((?:(?!File ").*\n?){0,12})', out):
        f, line, msg = m.group(1), int(m.group(2)), m.group(3)
        if 'Error' not in msg:
            continue          # a warning location
        path = f if os.path.isabs(f) else os.path.normpath(os.path.join(C.COQ, f))
        errs.append((os.path.relpath(path, C.COQ), line, _theorem_at(path, line), ' '.join(msg.split())[:400]))
    return errs


def run(res_proof: dict, pid: str = 'C14', tie: str = 'coalescent_models') -> None:
    """Translate the CURRENT source.  If the translation is byte-identical to the committed
    gen/<Gen>.v, the equivalence theorems compiled by `make` (proofs/<Equiv>.vo) are about the
    current source.  If it differs, the translation and a copy of proofs/GenEquiv.v (its import of the generated
    module redirected) are compiled in a private scratch directory: the in-tree files are never modified by a
    check, so concurrent checks and `git status` are unaffected.  A harmless rewrite of the source whose
    translation still satisfies every equivalence theorem passes; otherwise the theorem that no longer checks
    is named."""
    cfg = TIES[tie]
    tr, GEN, EQ = cfg['mod'], cfg['gen'], cfg['equiv']
    OUT = os.path.join(C.THEORIES, 'gen', GEN + '.v')
    EQUIV = os.path.join(C.THEORIES, 'proofs', EQ + '.v')
    src = os.path.join(C.REPO, 'phasegen', cfg['src'])
    info = {'source': src, 'translated': False, 'identical_to_committed': False, 'functions': [],
            'equivalence_checked': False}
    res_proof.setdefault('translator', {})[tie] = info
    try:
        text, funcs = tr.translate(src if cfg.get('src_is_dir') else open(src).read())
    except (tr.Unsupported, SyntaxError, OSError) as e:
        res_proof['errors'].append(
            f'translate step [{tr.__name__}]: the translator failed closed on {src}: {e} - the equivalence theorems of '
            f'proofs/{EQ}.v do not cover this source')
        res_proof['discharged'] = 0
        return
    info['translated'] = True
    info['functions'] = funcs
    try:
        old = open(OUT).read()
    except OSError:
        old = None
    if old == text:
        info['identical_to_committed'] = True
        # GenEquiv.vo was (re)built by ensure_build() in the proof step against exactly this text
        info['equivalence_checked'] = os.path.exists(EQUIV + 'o') and \
            os.path.getmtime(EQUIV + 'o') >= os.path.getmtime(OUT)
        if not info['equivalence_checked']:
            res_proof['errors'].append(f'translate step [build]: proofs/{EQ}.vo is missing or older than gen/{GEN}.v')
            res_proof['discharged'] = 0
        return
    # the source translates to something else than the committed file: check the equivalence in a scratch copy
    import shutil
    import tempfile
    d = tempfile.mkdtemp(prefix='gen_', dir=C.WORK)
    try:
        with open(os.path.join(d, GEN + '.v'), 'w') as fh:
            fh.write(text)
        eq = open(EQUIV).read()
        eq2 = re.sub(r'\bgen\.' + GEN + r'\b', '', eq)
        if eq2 == eq:
            res_proof['errors'].append(f'translate step: proofs/{EQ}.v does not import gen.{GEN} as expected')
            res_proof['discharged'] = 0
            return
        eq2, n_ins = re.subn(r'^From PG Require Import', f'From PGS Require Import {GEN}.\nFrom PG Require Import', eq2, count=1, flags=re.M)
        if n_ins != 1:
            res_proof['errors'].append(f'translate step: proofs/{EQ}.v has no `From PG Require Import` line to redirect')
            res_proof['discharged'] = 0
            return
        with open(os.path.join(d, EQ + '.v'), 'w') as fh:
            fh.write(eq2)
        base = ['coqc', '-Q', C.THEORIES, 'PG', '-Q', d, 'PGS', '-w', '-notation-overridden,-deprecated-hint-without-locality']
        rc, out, _ = C.sh(base + [os.path.join(d, GEN + '.v')], 600, cwd=d)
        if rc != 0:
            res_proof['errors'].append('translate step [generated file]: the translation of the current source does not compile: '
                                       + ' '.join(out.split())[-600:])
            res_proof['discharged'] = 0
            return
        rc, out, _ = C.sh(base + [os.path.join(d, EQ + '.v')], 900, cwd=d)
        if rc == 0:
            info['equivalence_checked'] = True
            info['note'] = f'source translates to a different text than the committed gen/{GEN}.v, but every equivalence theorem still checks'
            return
        broken = []
        for m in re.finditer(r'File "([^"]+)", line (\d+), characters [^\n]*\n((?:(?!File ").*\n?){0,12})', out):
            if 'Error' not in m.group(3):
                continue
            thm = _theorem_at(os.path.join(d, EQ + '.v'), int(m.group(2)))
            broken.append(thm)
            res_proof['errors'].append(
                f'translate step [equivalence]: {thm or "(no theorem found)"} of proofs/{EQ}.v no longer checks against the '
                f'translation of {src}: ' + ' '.join(m.group(3).split())[:400])
        if not broken:
            res_proof['errors'].append(f'translate step [equivalence]: proofs/{EQ}.v no longer checks: ' + out[-800:])
        info['broken'] = broken
        res_proof['discharged'] = 0
    finally:
        shutil.rmtree(d, ignore_errors=True)
