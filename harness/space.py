"""The `statespace` stream: state spaces, rate matrices, initial vectors and reward vectors of the
implementation against the Gallina model (StateSpace.v, Rewards.v) over exact rationals."""
from fractions import Fraction as Fr

import common as C
import gen

HEADER = """From Coq Require Import ZArith QArith List.
From PG Require Import base.Ops base.Show model.CoalModels model.StateSpace model.Rewards model.Check.
Import ListNotations.
Open Scope Q_scope.
"""


def nat3(a):
    return C.coqlist([C.coqlist([C.coqlist([f'{int(x)}%nat' for x in row]) for row in loc]) for loc in a])


def state_coq(s):
    return f'(mkState {nat3(s[0])} {nat3(s[1])})'


def model_coq(m, beta_scale=None):
    if m is None or m['kind'] == 'kingman':
        return 'Kingman'
    st = 'true' if m.get('scale_time', True) else 'false'
    if m['kind'] == 'beta':
        return f'(Beta {C.qlit(m["alpha"])} {st})'
    return f'(Dirac {C.qlit(m["psi"])} {C.qlit(m["c"])} {st})'


def reward_coq(r, pops):
    t = r[0]
    simple = {'TreeHeight': 'RTreeHeight', 'TotalTreeHeight': 'RTotalTreeHeight', 'TotalBranchLength': 'RTotalBranchLength',
              'Unit': 'RUnit', 'BlockCountingUnit': 'RBlockCountingUnit'}
    if t in simple:
        return simple[t]
    if t == 'UnfoldedSFS': return f'(RUnfoldedSFS {r[1]}%nat)'
    if t == 'FoldedSFS': return f'(RFoldedSFS {r[1]}%nat)'
    if t == 'Lineage': return f'(RLineage {r[1]}%nat)'
    if t == 'Deme': return f'(RDeme {pops.index(r[1])}%nat)'
    if t == 'Locus': return f'(RLocus {r[1]}%nat)'
    if t == 'TBLLocus': return f'(RTBLLocus {r[1]}%nat)'
    if t == 'Product': return '(RProduct ' + C.coqlist([reward_coq(x, pops) for x in r[1]]) + ')'
    if t == 'Sum': return '(RSum ' + C.coqlist([reward_coq(x, pops) for x in r[1]]) + ')'
    if t == 'Combined': return '(combined_reward ' + C.coqlist([reward_coq(x, pops) for x in r[1]]) + ')'
    raise ValueError(t)


def is_exact(spec):
    m = spec.get('model') or {'kind': 'kingman'}
    return m['kind'] == 'kingman'


def tscale_expr(spec, dump):
    """per-deme time scales: computed by the model for Kingman/Dirac/unscaled Beta; for the scaled Beta model (real
    powers) the documented formula evaluated independently of the implementation"""
    m = spec.get('model') or {'kind': 'kingman'}
    if m['kind'] == 'beta' and m.get('scale_time', True):
        # documented msprime scaling, computed independently of the implementation (mpmath) from the sizes in force
        return C.coqlist([C.qlit(C.beta_timescale(m['alpha'], x)) for x in dump['sizes']])
    mc = model_coq(m)
    return '(map (timescale OpsQ (fun N a => 0) (' + mc + ' : cmodel (T:=Q))) ' + C.coqlist([C.qlit(x) for x in dump['sizes']]) + ')'


def case_body(spec, which, dump, rewards, idx):
    m = spec.get('model') or {'kind': 'kingman'}
    nl = spec.get('loci', 1)
    nd = len(dump['pop_names'])
    n = sum(dump['config'])
    tol = '0' if is_exact(spec) else '(1 # 100000000000)'
    fuel = 4 * n * nl + 2 * nd * n + 10
    b = f'(* case {idx} {which} *)\n'
    b += f'Definition P{idx} : params (T:=Q) := mkParams {model_coq(m)} {tscale_expr(spec, dump)} ' \
         + C.coqlist([C.coqlist([C.qlit(x) for x in row]) for row in dump['mig']]) \
         + f' {C.qlit(dump["rec"])} {"true" if which == "lc" else "false"}.\n'
    b += f'Definition st{idx} : list state := ' + C.coqlist([state_coq(s) for s in dump['states']]) + '.\n'
    b += (f'Eval vm_compute in (show_report (check_space P{idx} {fuel}%nat {nl}%nat {nd}%nat {n}%nat '
          + C.natlist(dump['config'])
          + f' {dump["n_unlinked"]}%nat {tol} st{idx} '
          + C.coqlist([C.coqlist([C.qlit(x) for x in row]) for row in dump['S']]) + ' '
          + C.coqlist([C.qlit(x) for x in dump['alpha']]) + ' '
          + C.coqlist(['true' if x else 'false' for x in dump['absorbing']]) + ')).\n')
    # reward vectors
    rw = [(r, v) for r, v in zip(rewards, dump['rewards']) if v != 'NotImplementedError']
    if rw:
        b += ('Eval vm_compute in (map (fun rv => vec_mismatch (1 # 1000000000000) (reward_vector OpsQ '
              + f'{n}%nat (fst rv) st{idx}) (snd rv)) '
              + C.coqlist(['(' + reward_coq(r, dump['pop_names']) + ', ' + C.coqlist([C.qlit(x) for x in v]) + ')'
                           for r, v in rw]) + ').\n')
    return b, len(rw)


def default_rewards(spec, which, pops, n):
    rs = [['TreeHeight'], ['TotalBranchLength'], ['Unit'], ['TotalTreeHeight']]
    rs += [['Deme', p] for p in pops]
    rs += [['Product', [['TotalBranchLength'], ['Deme', pops[0]]]], ['Sum', [['Deme', p] for p in pops]]]
    if which == 'lc':
        rs += [['Lineage', k] for k in range(2, n + 1)]
        nl = spec.get('loci', 1)
        rs += [['Locus', l] for l in range(nl)] + [['TBLLocus', l] for l in range(nl)]
        rs += [['Combined', [['TotalBranchLength'], ['Locus', 0]]], ['Combined', [['TreeHeight'], ['Locus', nl - 1]]],
               ['Combined', [['TreeHeight'], ['Deme', pops[-1]]]]]
    else:
        rs += [['UnfoldedSFS', i] for i in range(1, n)] + [['FoldedSFS', i] for i in range(1, n // 2 + 1)]
        rs += [['BlockCountingUnit'], ['Combined', [['Unit'], ['UnfoldedSFS', 1]]],
               ['Combined', [['Deme', pops[0]], ['FoldedSFS', 1]]]]
    return rs


def run_stream(res, pid, specs, epoch_times=None, spaces=('lc', 'bc'), max_states=320):
    """Runs the stream; records violations in res. Returns per-case implementation dumps."""
    cases = []
    for spec in specs:
        pops = [p for p, _ in spec['n_items']]
        n = gen.effective_n(spec)
        sp = [w for w in spaces if not (w == 'bc' and spec.get('loci', 1) == 2)]
        case = {'spec': spec, 'spaces': sp, 'epoch_times': epoch_times(spec) if epoch_times else [0.0]}
        if len(case['epoch_times']) > 1 and len(cases) % 2 == 1:
            case['k_first'] = True      # enumerate the states first, then read the rate matrices last epoch first
        for w in sp:
            case['rewards_' + w] = default_rewards(spec, w, pops, n)
        if spec.get('prelude'):
            case['prelude'] = spec['prelude']
        cases.append(case)
    chunks = [cases[i::C.NCPU] for i in range(C.NCPU)]
    chunks = [c for c in chunks if c]
    outs = C.run_impl_parallel('statespace.py', [{'cases': c} for c in chunks])
    impl = {}
    for ch, o in zip(chunks, outs):
        for c, r in zip(ch, o['results']):
            impl[id(c)] = r
    bodies, index = [], []
    idx = 0
    for c in cases:
        r = impl[id(c)]
        if 'error' in r:
            res.violation('building the state space raised', {'spec': c['spec'], 'error': r['error']})
            continue
        for w in c['spaces']:
            for e_i, dump in enumerate(r[w]):
                if len(dump['states']) > max_states:
                    continue
                body, nrw = case_body(c['spec'], w, dump, c['rewards_' + w], idx)
                bodies.append(body)
                index.append((c, w, e_i, dump, nrw))
                idx += 1
    # shard
    nsh = min(C.NCPU, max(1, len(bodies)))
    shards = [[] for _ in range(nsh)]
    for i, b in enumerate(bodies):
        shards[i % nsh].append(i)
    outs = C.run_coq_cases(pid, 'space', HEADER, ['\n'.join(bodies[i] for i in sh) for sh in shards], timeout=1500)
    for sh, (rc, vals, raw) in zip(shards, outs):
        exp = sum(1 + (1 if index[i][4] else 0) for i in sh)
        if rc != 0 or len(vals) != exp:
            res.violation('model evaluation of the state space failed',
                          {'coq_output': raw[-2000:], 'specs': [index[i][0]['spec'] for i in sh][:3]}, concrete=False)
            continue
        k = 0
        for i in sh:
            c, w, e_i, dump, nrw = index[i]
            rep = C.parse_term(vals[k]); k += 1
            fuel_ok, nodup, sub1, sub2, (badS, badA, badAbs, nmodel) = rep
            key = (gen.spec_key(c['spec']), w, e_i)
            res.count(key, nontrivial=len(dump['states']) > 1)
            info = {'spec': c['spec'], 'space': w, 'epoch_time': c['epoch_times'][e_i],
                    'n_states_impl': len(dump['states']), 'n_states_model': nmodel}
            if not fuel_ok:
                res.violation('model ran out of fuel', info, concrete=False)
                continue
            if not nodup:
                res.violation('a reachable count state is listed twice', info)
            if not sub1 or not sub2:
                res.violation('state set differs from the projection of the reachable labelled states', info)
            if badS:
                i0, j0 = badS[0]
                res.violation('transition rate differs from the model (summed labelled rate)',
                              dict(info, entry=[i0, j0], source=dump['states'][i0], target=dump['states'][j0],
                                   observed=dump['S'][i0][j0], n_bad=len(badS)))
            if badA:
                res.violation('initial distribution differs', dict(info, positions=badA[:5], alpha=dump['alpha']))
            if badAbs:
                res.violation('is_absorbing differs', dict(info, positions=badAbs[:5]))
            # generator property on the implementation
            for ri, row in enumerate(dump['S']):
                if any(x < 0 for cj, x in enumerate(row) if cj != ri) or abs(sum(row)) > 1e-9 * max(1.0, abs(row[ri])):
                    res.violation('rate matrix is not a generator', dict(info, row=ri, values=row))
                    break
            if nrw:
                mism = C.parse_term(vals[k]); k += 1
                rw = [(r, v) for r, v in zip(c['rewards_' + w], dump['rewards']) if v != 'NotImplementedError']
                for (r, v), bad in zip(rw, mism):
                    res.count(key + (str(r),), nontrivial=any(x != 0 for x in v))
                    if bad:
                        res.violation('reward vector differs from the model',
                                      dict(info, reward=r, positions=bad[:5], observed=[v[p] for p in bad[:5] if p < len(v)]))
            res.sample({'spec': c['spec'], 'space': w, 'states': len(dump['states'])}, cap=4)
    res.stream('statespace', spaces=len(index), skipped_too_large=sum(1 for c in cases if 'error' not in impl[id(c)] for w in c['spaces'] for d in impl[id(c)][w] if len(d['states']) > max_states))
    return [(c, impl[id(c)]) for c in cases]
