"""Shared machinery of the PhaseGen checks: proof step, Coq case evaluation,
implementation runner helpers, violation/known-finding protocol, evidence."""
import fractions
import hashlib
import json
import math
import os
import re
import subprocess
import sys
import time

VERIF = os.path.dirname(os.path.dirname(os.path.abspath(__file__)))
COQ = os.path.join(VERIF, 'coq')
THEORIES = os.path.join(COQ, 'theories')
WORK = os.path.join(VERIF, 'work')
REPO = os.environ.get('PHASEGEN_REPO', '/repo')
PY = '/venv/bin/python'
NCPU = max(1, min(16, os.cpu_count() or 1))

FORBIDDEN = re.compile(
    r'\b(Admitted|admit|Axiom|Axioms|Parameter|Parameters|Conjecture|Conjectures|Abort All|'
    r'bypass_check|Unset\s+Guard\s+Checking|Unset\s+Positivity\s+Checking|Unset\s+Universe\s+Checking|'
    r'Admit\s+Obligations|type-in-type|impredicative-set)\b')


# ----------------------------------------------------------------------------------------------
# numbers -> Coq literals
# ----------------------------------------------------------------------------------------------
def qlit(x) -> str:
    """Exact rational literal of a Python float / int / Fraction."""
    f = fractions.Fraction(x)
    if f.numerator < 0:
        return f'((-{-f.numerator}) # {f.denominator})'
    return f'({f.numerator} # {f.denominator})'


def flit(x: float) -> str:
    """Exact binary64 literal."""
    x = float(x)
    if math.isnan(x):
        return 'nan'
    if math.isinf(x):
        return 'infinity' if x > 0 else 'neg_infinity'
    if x == 0:
        return '0'
    h = x.hex()
    if h.startswith('-'):
        return f'(-{h[1:]})'
    return h


def natlist(l) -> str:
    return '[' + '; '.join(f'{int(v)}%nat' for v in l) + ']'


def coqlist(items) -> str:
    return '[' + '; '.join(items) + ']'


# ----------------------------------------------------------------------------------------------
# running Coq
# ----------------------------------------------------------------------------------------------
def sh(cmd, timeout, cwd=None, env=None):
    t0 = time.time()
    try:
        p = subprocess.run(cmd, cwd=cwd, env=env, stdout=subprocess.PIPE, stderr=subprocess.STDOUT,
                           timeout=timeout, text=True)
        return p.returncode, p.stdout, time.time() - t0
    except subprocess.TimeoutExpired as e:
        out = e.stdout if isinstance(e.stdout, str) else (e.stdout or b'').decode(errors='replace')
        return 124, out + '\n[timeout]', time.time() - t0


def _vo_digest():
    """digest of every compiled file of the development: the key of the coqchk cache"""
    import hashlib
    h = hashlib.sha256()
    for root, _, files in sorted(os.walk(THEORIES)):
        for f in sorted(files):
            if f.endswith('.vo'):
                h.update(os.path.join(root, f).encode())
                with open(os.path.join(root, f), 'rb') as fh:
                    h.update(hashlib.sha256(fh.read()).digest())
    return h.hexdigest()


def coqchk_step(pid, res):
    """Independent re-check of props/<pid>.vo and everything it depends on with coqchk -o.
    coqchk has no VM: proofs by bounded reflection (vm_compute) are re-evaluated with the lazy
    machine and can take hours, so the run has a time budget (PG_COQCHK_TIMEOUT seconds, default
    2400); running out of it is recorded in the evidence and is not an error (the kernel accepted
    the proof when the file was compiled).  A failure of coqchk IS an error.  The result is cached
    under work/ keyed by the digest of all .vo files (the Coq side does not depend on /repo)."""
    budget = int(os.environ.get('PG_COQCHK_TIMEOUT', '2400'))
    cache_file = os.path.join(WORK, 'coqchk_cache.json')
    key = _vo_digest()
    try:
        cache = json.load(open(cache_file))
    except Exception:
        cache = {}
    ent = cache.get(key, {}).get(pid)
    if ent is None or (ent['rc'] == 124 and ent.get('budget', 0) < budget):
        rc, cout, dt = sh(['coqchk', '-silent', '-o', '-Q', THEORIES, 'PG', f'PG.props.{pid}'], budget, cwd=COQ)
        ent = {'rc': rc, 'tail': cout[-1500:], 'seconds': round(dt, 1), 'budget': budget}
        try:
            cache = json.load(open(cache_file))
        except Exception:
            cache = {}
        cache = {key: dict(cache.get(key, {}), **{pid: ent})}      # drop entries of older builds
        os.makedirs(WORK, exist_ok=True)
        tmp = cache_file + f'.{os.getpid()}'
        json.dump(cache, open(tmp, 'w'))
        os.replace(tmp, cache_file)
        ent = dict(ent, cached=False)
    else:
        ent = dict(ent, cached=True)
    res['coqchk_rc'] = ent['rc']
    res['coqchk_seconds'] = ent['seconds']
    res['coqchk_cached'] = ent['cached']
    res['coqchk_tail'] = ent['tail']
    if ent['rc'] == 124:
        res['coqchk'] = (f'not completed within {ent["budget"]} s (coqchk re-evaluates the vm_compute reflection proofs '
                         'without the VM); kernel acceptance by coqc stands')
    elif ent['rc'] != 0:
        res['errors'].append('coqchk failed: ' + ent['tail'])
        res['discharged'] = 0
    else:
        res['coqchk'] = 'ok'


def ensure_build(timeout=3000):
    """Incremental full .vo build of the development (no -vos).  Serialised by a file lock so that
    checks started concurrently do not compile the same file twice at the same time."""
    import fcntl
    os.makedirs(WORK, exist_ok=True)
    with open(os.path.join(WORK, '.build.lock'), 'w') as lk:
        fcntl.flock(lk, fcntl.LOCK_EX)
        try:
            mk = os.path.join(COQ, 'Makefile')
            if not os.path.exists(mk) or os.path.getmtime(mk) < os.path.getmtime(os.path.join(COQ, '_CoqProject')):
                rc, out, _ = sh(['coq_makefile', '-f', '_CoqProject', '-o', 'Makefile'], 120, cwd=COQ)
                if rc != 0:
                    return False, out
            rc, out, _ = sh(['make', f'-j{NCPU}'], timeout, cwd=COQ)
            return rc == 0, out
        finally:
            fcntl.flock(lk, fcntl.LOCK_UN)


def parse_evals(out: str):
    """Split coqc output into the values printed by successive `Eval ... in` commands."""
    vals, cur = [], None
    for line in out.splitlines():
        if line.startswith('     = '):
            cur = [line[7:]]
        elif line.startswith('     : ') and cur is not None:
            vals.append(' '.join(s.strip() for s in cur))
            cur = None
        elif cur is not None:
            cur.append(line)
    return vals


def run_coq_file(path, timeout=600):
    rc, out, dt = sh(['coqc', '-Q', THEORIES, 'PG', '-w', '-notation-overridden,-deprecated-hint-without-locality,'
                      '-ambiguous-paths,-redundant-canonical-projection,-projection-no-head-constant', path],
                     timeout, cwd=os.path.dirname(path))
    return rc, out, dt


def run_coq_cases(pid, name, header, bodies, timeout=900, shard=None):
    """Write one or several case files and evaluate them in parallel.

    header: Coq text (imports, helper definitions).
    bodies: list of Coq texts, one per shard, each ending with Eval commands.
    Returns list of (rc, values, raw_output) per shard."""
    d = os.path.join(WORK, pid + os.environ.get('PG_REPLAY_TAG', ''))      # tag: evaluations of seeded changes run side by side
    os.makedirs(d, exist_ok=True)
    paths = []
    for i, b in enumerate(bodies):
        p = os.path.join(d, f'cases_{name}_{i}.v')
        with open(p, 'w') as fh:
            fh.write(header + '\n' + b + '\n')
        paths.append(p)
    procs = []
    results = [None] * len(paths)
    import concurrent.futures
    with concurrent.futures.ThreadPoolExecutor(max_workers=NCPU) as ex:
        futs = {ex.submit(run_coq_file, p, timeout): i for i, p in enumerate(paths)}
        for f in concurrent.futures.as_completed(futs):
            i = futs[f]
            rc, out, dt = f.result()
            results[i] = (rc, parse_evals(out), out)
    # remove build products of the case files
    for p in paths:
        for ext in ('.vo', '.vok', '.vos', '.glob'):
            q = p[:-2] + ext
            if os.path.exists(q):
                os.remove(q)
        aux = os.path.join(os.path.dirname(p), '.' + os.path.basename(p)[:-2] + '.aux')
        if os.path.exists(aux):
            os.remove(aux)
    return results


def parse_natlist(s: str):
    s = s.strip()
    m = re.match(r'^\[(.*)\]$', s.replace('%nat', ''))
    if not m:
        raise ValueError(f'cannot parse nat list: {s[:200]}')
    body = m.group(1).strip()
    if not body:
        return []
    return [int(x) for x in body.split(';')]


# ----------------------------------------------------------------------------------------------
# proof step
# ----------------------------------------------------------------------------------------------
def load_trusted_axioms():
    with open(os.path.join(VERIF, 'trusted_axioms.json')) as fh:
        return json.load(fh)


def grep_forbidden():
    bad = []
    for root, _, files in os.walk(THEORIES):
        for f in files:
            if f.endswith('.v'):
                p = os.path.join(root, f)
                txt = open(p).read()
                txt = re.sub(r'\(\*.*?\*\)', '', txt, flags=re.S)   # comments do not count
                for m in FORBIDDEN.finditer(txt):
                    bad.append(f'{os.path.relpath(p, VERIF)}: {m.group(0)}')
    return bad


def proof_step(pid, thorough=False):
    """Build the development, re-check props/<pid>.v, collect obligations and assumptions."""
    res = {'obligations': 0, 'discharged': 0, 'theorems': [], 'axioms': {}, 'errors': [], 'checker_cmd': ''}
    ok, out = ensure_build()
    if not ok:
        res['errors'].append('make failed: ' + out[-2000:])
    bad = grep_forbidden()
    if bad:
        res['errors'].append('forbidden vernacular: ' + '; '.join(bad))
    src = os.path.join(THEORIES, 'props', f'{pid}.v')
    if not os.path.exists(src):
        res['errors'].append(f'missing {src}')
        return res
    text = open(src).read()
    text_nc = re.sub(r'\(\*.*?\*\)', '', text, flags=re.S)
    names = re.findall(r'^\s*(?:Theorem|Example|Corollary)\s+([A-Za-z0-9_\']+)', text_nc, flags=re.M)
    res['theorems'] = names
    res['obligations'] = len(names)
    rc, cout, dt = run_coq_file(src, timeout=1200)
    res['checker_cmd'] = (f'cd /verif/coq && make -j{NCPU} && coqc -Q theories PG theories/props/{pid}.v'
                          + (' && coqchk -silent -o -Q theories PG PG.props.' + pid if thorough else ''))
    if rc != 0:
        res['errors'].append(f'coqc props/{pid}.v failed: ' + cout[-2000:])
        # which theorems still check is unknown: count none as discharged
        return res
    # parse Print Assumptions blocks: "Closed under the global context" or "Axioms:\n name : type ..."
    blocks = re.split(r'(?m)^(?=Closed under the global context|Axioms:)', cout)
    found = []
    for b in blocks:
        if b.startswith('Closed under'):
            found.append([])
        elif b.startswith('Axioms:'):
            ax = re.findall(r'(?m)^([A-Za-z_][A-Za-z0-9_\.\']*)\s*(?::|$)', b[len('Axioms:'):])
            found.append(sorted(set(ax)))
    res['print_assumptions_blocks'] = len(found)
    allowed = set(load_trusted_axioms()['allowed'])
    allax = sorted({a for blk in found for a in blk})
    res['axioms'] = allax
    notallowed = [a for a in allax if a not in allowed]
    if notallowed:
        res['errors'].append('axioms outside the trusted base: ' + ', '.join(notallowed))
    if len(found) < len([n for n in names]):
        # every theorem must be followed by Print Assumptions
        res['errors'].append(f'{len(names)} theorems but only {len(found)} Print Assumptions blocks')
    res['discharged'] = len(names) if not res['errors'] else 0
    if thorough and not res['errors']:
        coqchk_step(pid, res)
    return res


def beta_timescale(alpha, N):
    """documented msprime time scale of the Beta coalescent, computed independently of the implementation
    (40 digits): m^alpha N^(alpha-1) / (alpha B(2-alpha, alpha)), m = 1 + 1/(2^(alpha-1) (alpha-1))"""
    import mpmath
    mpmath.mp.dps = 40
    a = mpmath.mpf(alpha)
    m = 1 + 1 / (2 ** (a - 1) * (a - 1))
    return float(m ** a * mpmath.mpf(N) ** (a - 1) / a / mpmath.beta(2 - a, a))


def spec_sizes(spec):
    """every population size a configuration spec mentions (pop_sizes tables; 1.0 for populations added implicitly)"""
    out = {1.0}
    for d in (spec.get('pop_sizes') or {}).values():
        if isinstance(d, dict):
            out |= {float(v) for v in d.values()}
        else:
            out.add(float(d))
    for e in (spec.get('events') or []) + (spec.get('added_events') or []) + (spec.get('late_events') or []):
        if 'size' in e:
            out.add(float(e['size']))
        for d in (e.get('pop_sizes') or {}).values():
            out |= {float(v) for v in (d.values() if isinstance(d, dict) else [d])}
    return sorted(out)


# ----------------------------------------------------------------------------------------------
# implementation side
# ----------------------------------------------------------------------------------------------
def impl_env(hashseed='0'):
    env = dict(os.environ)
    env['PYTHONPATH'] = REPO
    env['PYTHONHASHSEED'] = str(hashseed)
    env['SENDROWSKI_PHASEGEN_VERIF'] = '1'
    env['MPLBACKEND'] = 'Agg'
    env['OMP_NUM_THREADS'] = '1'
    env['OPENBLAS_NUM_THREADS'] = '1'
    env['MKL_NUM_THREADS'] = '1'
    return env


class ImplTimeout(Exception):
    pass


def run_impl(script, payload, timeout=900, hashseed='0'):
    """Run harness/impl/<script> in a fresh interpreter against /repo's working tree.
    payload (JSON) on stdin, JSON on stdout (last line).  The runner gets its own process group so that, when it does not return
    within `timeout` seconds (a deadlock of worker processes, an endless search), it is killed together with its children."""
    import signal
    p = subprocess.Popen([PY, os.path.join(VERIF, 'harness', 'impl', script)], env=impl_env(hashseed), stdin=subprocess.PIPE,
                         stdout=subprocess.PIPE, stderr=subprocess.PIPE, text=True, cwd='/tmp', start_new_session=True)
    try:
        out, err = p.communicate(json.dumps(payload), timeout=timeout)
    except subprocess.TimeoutExpired:
        try:
            os.killpg(p.pid, signal.SIGKILL)
        except OSError:
            pass
        p.communicate()
        raise ImplTimeout(f'implementation runner {script} did not return within {timeout} s')
    if p.returncode != 0:
        raise RuntimeError(f'implementation runner {script} failed (rc={p.returncode}):\n{err[-3000:]}')
    line = out.strip().splitlines()[-1]
    return json.loads(line)


def run_impl_parallel(script, payloads, timeout=900, hashseeds=None):
    """one runner per payload; a runner that does not return in time yields {'results': [{'error': 'TIMEOUT ...'}, ...]} (one entry per
    case of its payload) so that the caller reports it with the case as the failing input instead of waiting or crashing"""
    import concurrent.futures
    out = [None] * len(payloads)

    def one(i, pl):
        try:
            return run_impl(script, pl, timeout, (hashseeds[i] if hashseeds else '0'))
        except ImplTimeout as e:
            ncase = len(pl.get('cases', [None])) if isinstance(pl, dict) else 1
            return {'results': [{'error': 'TIMEOUT: ' + str(e), 'errors': ['TIMEOUT: ' + str(e)], 'timeout': True} for _ in range(max(1, ncase))],
                    'timeout': True}
    with concurrent.futures.ThreadPoolExecutor(max_workers=NCPU) as ex:
        futs = {ex.submit(one, i, pl): i for i, pl in enumerate(payloads)}
        for f in concurrent.futures.as_completed(futs):
            out[futs[f]] = f.result()
    return out


# ----------------------------------------------------------------------------------------------
# result protocol
# ----------------------------------------------------------------------------------------------
class Result:
    def __init__(self, pid, tier, seed):
        self.pid, self.tier, self.seed = pid, tier, seed
        self.t0 = time.time()
        self.violations = []          # dicts: {kind, what, replay:{...}, concrete:bool}
        self.known = []               # strings
        self.evaluations = 0
        self.nontrivial = set()
        self.samples = []
        self.streams = {}
        self.rule = ''
        self.assumptions = []
        self.proof = None
        self.extra = {}

    def count(self, key, nontrivial=True, n=1):
        self.evaluations += n
        if nontrivial:
            self.nontrivial.add(key if isinstance(key, str) else json.dumps(key, sort_keys=True, default=str))

    def sample(self, s, cap=6):
        if len(self.samples) < cap:
            self.samples.append(s)

    def stream(self, name, **kw):
        d = self.streams.setdefault(name, {})
        for k, v in kw.items():
            if isinstance(v, (int, float)) and isinstance(d.get(k), (int, float)):
                d[k] += v
            else:
                d[k] = v

    def violation(self, what, replay, concrete=True, finding_key=None):
        self.violations.append({'what': what, 'replay': replay, 'concrete': concrete, 'key': finding_key})


def load_known_findings():
    p = os.path.join(VERIF, 'known_findings.json')
    if not os.path.exists(p):
        return {'findings': [], 'fixed': []}
    return json.load(open(p))


def finish(res: Result):
    """Apply the known-findings filter, print protocol lines, write evidence, return exit code."""
    kf = load_known_findings()
    listed = {f['key']: f for f in kf.get('findings', []) if f['property'] == res.pid}
    real = []
    for v in res.violations:
        if v.get('key') and v['key'] in listed:
            msg = f"KNOWN-FINDING: property={res.pid} {listed[v['key']]['what']}"
            if msg not in res.known:
                res.known.append(msg)
        else:
            real.append(v)
    for m in res.known:
        print(m)
    os.makedirs(os.path.join(VERIF, 'replays'), exist_ok=True)
    # proof errors become violations without a concrete input unless a concrete one was found
    if res.proof and res.proof['errors'] and not any(v['concrete'] for v in real):
        real.append({'what': 'proof obligation no longer checks', 'concrete': False,
                     'replay': {'broken': res.proof['errors'], 'theorems': res.proof['theorems']}})
    rc = 0
    seen = set()
    for v in real:
        blob = json.dumps(v['replay'], sort_keys=True, default=str)
        h = hashlib.sha1(blob.encode()).hexdigest()[:12]
        if h in seen:
            continue
        seen.add(h)
        path = os.path.join(VERIF, 'replays', f'{res.pid}-{h}.json')
        with open(path, 'w') as fh:
            json.dump({'property': res.pid, 'what': v['what'], 'concrete_failing_input': v['concrete'],
                       'replay': v['replay'],
                       'reproduce': f'cd /verif && ./check {res.pid} --replay {path}'}, fh, indent=1, default=str)
        tail = '' if v['concrete'] else ' no-failing-input-found'
        print(f'VIOLATION property={res.pid} replay={path}{tail}')
        rc = 1
        if len(seen) >= 5:
            break
    write_evidence(res, len(real))
    return rc


def write_evidence(res: Result, nviol):
    pr = res.proof or {'obligations': 0, 'discharged': 0, 'checker_cmd': '', 'axioms': [], 'theorems': []}
    tb = load_trusted_axioms()
    cov = {
        'obligations': pr['obligations'],
        'discharged': pr['discharged'],
        'checker_cmd': pr['checker_cmd'] or 'n/a',
        'trusted_base': tb['trusted_base'] + ['axioms reported by Print Assumptions for this property: '
                                             + (', '.join(pr['axioms']) if pr['axioms'] else 'none (closed under the global context)')],
        'theorems': pr['theorems'],
        'evaluations': res.evaluations,
        'distinct_nontrivial': len(res.nontrivial),
        'rule': res.rule,
        'samples': res.samples if res.samples else [{'theorems': pr['theorems'][:5]}],
        'streams': res.streams,
        'known_findings_reconfirmed': res.known,
    }
    if pr.get('translator'):
        cov['translator'] = pr['translator']
    for k in ('coqchk', 'coqchk_seconds', 'coqchk_cached'):
        if k in pr:
            cov[k] = pr[k]
    cov.update(res.extra)
    ev = {
        'property_id': res.pid,
        'tier': res.tier,
        'seed': res.seed,
        'level': 'proof',
        'coverage': cov,
        'assumptions': res.assumptions,
        'wall_s': round(time.time() - res.t0, 2),
        'violations': nviol,
    }
    os.makedirs(os.path.join(VERIF, 'evidence'), exist_ok=True)
    evdir = os.path.join(VERIF, 'evidence') if not os.environ.get('PG_REPLAY_TAG') else os.path.join(WORK, 'evidence_' + os.environ['PG_REPLAY_TAG'])
    if res.proof is None:
        # a debugging run without the proof step (--no-proof) never overwrites the evidence of a full run
        evdir = os.path.join(WORK, 'evidence_noproof')
    os.makedirs(evdir, exist_ok=True)
    with open(os.path.join(evdir, f'{res.pid}.json'), 'w') as fh:
        json.dump(ev, fh, indent=1, default=str)


# ----------------------------------------------------------------------------------------------
# parser for terms printed by Coq: nested lists / tuples of nat, Z, Q (a # b), bool, floats
# ----------------------------------------------------------------------------------------------
_TOK = re.compile(r'\s*(\[|\]|\(|\)|;|,|#|true|false|None|Some|nan|infinity|neg_infinity|'
                  r'-?\d+\.\d*(?:e[+-]?\d+)?|-?\d+(?:e[+-]?\d+)?|-)')


def parse_term(s: str):
    s = re.sub(r'%[A-Za-z_]+', '', s)
    toks = []
    pos = 0
    while pos < len(s):
        if s[pos:].strip() == '':
            break
        m = _TOK.match(s, pos)
        if not m:
            raise ValueError(f'cannot tokenise Coq output at: {s[pos:pos + 80]!r}')
        toks.append(m.group(1))
        pos = m.end()
    i = 0

    def atom():
        nonlocal i
        t = toks[i]
        if t == '[':
            i += 1
            items = []
            if toks[i] == ']':
                i += 1
                return items
            while True:
                items.append(expr())
                if toks[i] == ';':
                    i += 1
                    continue
                if toks[i] == ']':
                    i += 1
                    return items
                raise ValueError('list syntax')
        if t == '(':
            i += 1
            items = [expr()]
            while toks[i] == ',':
                i += 1
                items.append(expr())
            if toks[i] != ')':
                raise ValueError('tuple syntax')
            i += 1
            return items[0] if len(items) == 1 else tuple(items)
        if t == '-':
            i += 1
            v = atom()
            return -v
        if t in ('true', 'false'):
            i += 1
            return t == 'true'
        if t == 'None':
            i += 1
            return None
        if t == 'Some':
            i += 1
            return ('Some', atom())
        if t in ('nan', 'infinity', 'neg_infinity'):
            i += 1
            return {'nan': float('nan'), 'infinity': float('inf'), 'neg_infinity': float('-inf')}[t]
        i += 1
        if '.' in t or 'e' in t:
            return float(t)
        return int(t)

    def expr():
        nonlocal i
        v = atom()
        if i < len(toks) and toks[i] == '#':
            i += 1
            d = atom()
            return fractions.Fraction(v, d)
        return v

    v = expr()
    if i != len(toks):
        raise ValueError('trailing tokens in Coq output')
    return v


def gt(a, b):
    """a > b, written so that a NaN on either side counts as a failure of `a <= b` (a plain `abs(x - y) > tol` is False for NaN and
    would let a statistic that is not a number pass)"""
    return not (a <= b)


def close(a, b, rel=0.0, abs_=0.0):
    """|a-b| <= abs_ + rel*max(|a|,|b|) on exact Fractions / floats."""
    a = fractions.Fraction(a) if not isinstance(a, fractions.Fraction) else a
    b = fractions.Fraction(b) if not isinstance(b, fractions.Fraction) else b
    return abs(a - b) <= fractions.Fraction(abs_) + fractions.Fraction(rel) * max(abs(a), abs(b))
