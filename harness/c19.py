"""C19 - inference returns the best run, within bounds, reproducibly."""
import json
import random
from fractions import Fraction as Fr

import numpy as np

import math
import common as C

HEADER = """From Coq Require Import QArith List Bool.
From PG Require Import base.Show model.Inference.
Import ListNotations.
Open Scope Q_scope.
Definition qeqb (a b : list Q) : bool := (Nat.eqb (length a) (length b)) && forallb (fun xy => Qeq_bool (fst xy) (snd xy)) (combine a b).
(* the optimiser as an oracle: a table from start point to result *)
Definition table_opt (tbl : list (list Q * oresult)) (x : list Q) : oresult :=
  match find (fun e => qeqb (fst e) x) tbl with Some e => snd e | None => mkRes [] 0 false end.
Definition show_inf (i : inference) :=
  (match i_params i with Some p => [showQs p] | None => [] end,
   match i_loss i with Some l => [showQ l] | None => [] end, showQs (i_loss_runs i), length (i_bootstraps i)).
"""


def run(res, replay=None):
    # structural tie of the result bookkeeping of Inference (_run from `results` on, add_run(s), add_bootstrap(s)): translate the CURRENT source and re-check proofs/GenInferenceEquiv.v
    import translate_step; (res.proof is not None) and translate_step.run(res.proof, pid=res.pid, tie='inference')
    # pinned reading of phasegen/utils.py (parallelize returns the runs in the order of their start values): re-check the CURRENT source against it and proofs/GenUtilsEquiv.v
    import translate_step; (res.proof is not None) and translate_step.run(res.proof, pid=res.pid, tie='utils')
    # pinned reading of the loss classes (phasegen/norms.py: LNorm.compute and the three named norms): re-check the CURRENT source against it and proofs/GenNormsEquiv.v
    import translate_step; (res.proof is not None) and translate_step.run(res.proof, pid=res.pid, tie='norms')
    rng = random.Random(res.seed)
    res.rule = ('inference stream: tiny identifiable models (one or two size parameters, n in {3,4}, L2 loss on height and '
                'branch length or Poisson likelihood on the SFS, noise-free data), seeds, 1-3 runs, with/without explicit '
                'x0: parameters within bounds, reported loss = min over runs = loss at the reported parameters, reported '
                'distribution built from them, same seed => same result, state-space caching on/off identical, add_run (incl. merging with a perfect fit of loss exactly 0) '
                'keeps the lower loss and concatenates, add_bootstrap adds one row, create_run starts from x0 and rejects '
                'out-of-bounds values, create_bootstrap resamples, generating parameters recovered (1e-3); the recorded '
                'optimiser results and seeded start points are replayed through the Gallina bookkeeping model '
                '(model/Inference.v) and compared exactly')
    res.assumptions = ['L-BFGS-B convergence and determinism are runtime behaviour of SciPy']
    ncase = 4 if res.tier == 'quick' else 24
    cases = []
    if replay:
        cases = [replay['replay']['case']]
    else:
        for i in range(ncase):
            two = i % 2 == 1
            truth = [rng.choice([0.75, 1.5, 2.0, 3.0])] + ([rng.choice([0.5, 1.0, 2.5])] if two else [])
            cases.append({'n': rng.choice([3, 4]), 'times': [0.0, rng.choice([0.5, 1.0])], 'two_params': two, 'truth': truth,
                          'bounds': [[0.25, 8.0], [0.25, 6.0]][: (2 if two else 1)], 'n_runs': rng.choice([1, 2, 3]),
                          'seed': rng.randrange(1, 10 ** 6), 'loss': 'poisson' if i % 3 == 2 else 'l2',
                          'x0': None if rng.random() < 0.5 else ([1.0, 1.0][: (2 if two else 1)]), 'cache': rng.random() < 0.5})
        # Poisson likelihood on the COMPLETE spectrum (the monomorphic classes are exactly 0 in data and model)
        cases.append({'n': 4, 'times': [0.0, 0.5], 'two_params': False, 'truth': [2.0], 'bounds': [[0.25, 8.0]], 'n_runs': 2,
                      'seed': 17, 'loss': 'poisson_full', 'x0': [1.0], 'cache': True})
        # explicit start values whose keys are written in a different order than the bounds (different boxes)
        cases.append({'n': 3, 'times': [0.0, 0.5], 'two_params': True, 'truth': [3.0, 0.75], 'bounds': [[2.0, 8.0], [0.25, 1.5]],
                      'n_runs': 1, 'seed': 11, 'loss': 'l2', 'x0': [4.0, 1.0], 'x0_reversed': True, 'cache': True})
        # the same with several runs: a SAMPLED run (drawn in the order of the bounds) may win against the explicit start
        for sd in ((1, 2, 3) if res.tier == 'quick' else range(1, 13)):
            cases.append({'n': 3, 'times': [0.0, 0.5], 'two_params': True, 'truth': [3.0, 0.75], 'bounds': [[2.0, 8.0], [0.25, 1.5]],
                          'n_runs': 3, 'seed': sd, 'loss': 'l2', 'x0': [4.0, 1.0], 'x0_reversed': True, 'cache': True})
    outs = C.run_impl_parallel('inference.py', [{'cases': [c]} for c in cases], timeout=2400)
    bodies, keep = [], []
    for c, o in zip(cases, outs):
        r = o['results'][0]
        key = json.dumps(c, sort_keys=True)
        res.count(key, nontrivial=True)
        if 'error' in r:
            res.violation('inference raised', {'case': c, 'error': r['error']})
            continue
        m = r['main']
        def viol(what, **kw):
            res.violation(what, dict(case=c, **kw))
        p = list(m['params'].values())
        if any(not (b[0] - 1e-12 <= x <= b[1] + 1e-12) for x, b in zip(p, r['bounds'])):
            viol('reported parameters lie outside the bounds', params=m['params'], bounds=r['bounds'])
        if m['loss'] != min(m['loss_runs']) or len(m['loss_runs']) != c['n_runs']:
            viol('reported loss is not the minimum over all runs', loss=m['loss'], loss_runs=m['loss_runs'])
        if C.gt(abs(r['loss_at_params'] - m['loss']), 1e-12 * max(1.0, abs(m['loss'])) + 1e-15):
            viol('reported loss is not the loss at the reported parameters', loss=m['loss'], loss_at_params=r['loss_at_params'])
        if r.get('merged_dist_N0') is not None and r['merged_dist_N0'] != r['merged_params_N0']:
            viol('after a merge the reported distribution is not built from the reported parameters (it had been read before the merge)',
                 dist_N0=r['merged_dist_N0'], params_N0=r['merged_params_N0'], before=r['before_merge'], other=r['other'])
        if r['dist_inferred_N0'] != m['params']['N0']:
            viol('reported distribution is not built from the reported parameters', dist_N0=r['dist_inferred_N0'], params=m['params'])
        if r['again'] != m:
            viol('same seed gives a different result', first=m, second=r['again'])
        if r['cache_flipped'] != m:
            viol('state-space caching on/off changes the result', a=m, b=r['cache_flipped'])
        mg, ot, bf = r['merged'], r['other'], r['before_merge']
        exp_loss = min(bf['loss'], ot['loss'])
        exp_params = ot['params'] if ot['loss'] < bf['loss'] else bf['params']
        if mg['loss'] != exp_loss or mg['params'] != exp_params or mg['loss_runs'] != bf['loss_runs'] + ot['loss_runs']:
            viol('add_run does not keep the lower loss / concatenate the losses', merged=mg, self=bf, other=ot)
        ib = r.get('interleaved_boot')
        if ib is not None:
            res.count(key + ':interleaved_boot')
            if ib['rows_added'] != 3 or ib['first_column'] != [1.0, 2.0, 3.0]:
                res.violation('bootstraps and runs interleaved: the table does not hold exactly one row per add_bootstrap in the order they were added',
                              {'case': c, 'observed': ib, 'expected_first_column': [1.0, 2.0, 3.0]})
        pl = r.get('plural')
        if pl is not None:
            res.count(key + ':plural')
            for how in ('list', 'iterator'):
                if pl[how] != pl['singular'] or pl[how]['loss'] != pl['min_loss']:
                    res.violation(f'add_runs given a {how} does not give what add_run gives one by one (the minimum over all runs, losses concatenated)',
                                  {'case': c, 'how': how, 'observed': pl[how], 'one_by_one': pl['singular'], 'minimum_over_all_runs': pl['min_loss']})
            for rw in pl['rows']:
                if rw['rows_added'] != 3 or rw['first_column'] != pl['rows'][0]['first_column']:
                    res.violation(f"add_bootstraps given a {rw['how']} does not append exactly one row per element",
                                  {'case': c, 'observed': rw, 'one_by_one': pl['rows'][0]})
        for nv in r.get('norms', []):
            res.count(key + ':norms')
            d_ = [x - y for x, y in zip(nv['a'], nv['b'])]
            exp = {'l1': sum(abs(x) for x in d_), 'l2': math.sqrt(sum(x * x for x in d_)), 'linf': max(abs(x) for x in d_)}
            exp.update(lnorm1=exp['l1'], lnorm_inf=exp['linf'])
            for k_, e_ in exp.items():
                if not (abs(nv[k_] - e_) <= 1e-12 * max(1.0, abs(e_))) or (nv['a'] == nv['b'] and nv[k_] != 0.0):
                    res.violation('loss class of norms.py: value differs from the norm of the difference (reading of gen/NormsGen.v) / is not exactly 0 at a perfect fit',
                                  {'case': c, 'norm': k_, 'a': nv['a'], 'b': nv['b'], 'observed': nv[k_], 'expected': e_})
                    break
        pfm = r['perfect']
        for tag, mgd, a_, b_ in (('perfect fit + worse run', pfm['merged'], pfm['before'], pfm['other']),
                                 ('worse run + perfect fit', pfm['merged_reverse'], pfm['other'], pfm['before'])):
            el = min(a_['loss'], b_['loss'])
            ep = b_['params'] if b_['loss'] < a_['loss'] else a_['params']
            if mgd['loss'] != el or mgd['params'] != ep or mgd['loss'] != min(mgd['loss_runs']):
                viol(f'add_run does not keep the lower loss ({tag})', merged=mgd, self=a_, other=b_)
        if r['boot_rows'][1] != r['boot_rows'][0] + 2:
            viol('add_bootstrap does not append exactly one row each', rows=r['boot_rows'])
        if r['add_not_run'] != 'RuntimeError':
            viol('add_run accepted an object that has not run')
        if r['create_run_x0'] != r['requested_x0'] or r['create_run_first_start'] != r['requested_x0']:
            viol('a run created with explicit start values does not start from them', requested=r['requested_x0'],
                 x0=r['create_run_x0'], first_start=r['create_run_first_start'])
        if r['create_run_oob'] != 'ValueError':
            viol('start values outside the bounds were accepted')
        if not r['bootstrap_observation_changed']:
            viol('create_bootstrap did not resample the observation')
        for dv in r.get('derived', []):
            sm = dv['summary']
            if sm['loss'] != min(sm['loss_runs']) or C.gt(abs(dv['loss_at_params'] - sm['loss']), 1e-12 * max(1.0, abs(sm['loss'])) + 1e-15):
                viol(f"an object made by {dv['kind']} from a parent that had run, then run itself, does not report its own best run",
                     derived=dv)
        if any(C.gt(abs(x - t), 1e-3 * max(1.0, t)) for x, t in zip(p, c['truth'])):
            viol('generating parameters not recovered on noise-free data', params=p, truth=c['truth'])
        # replay through the Gallina model: seeded start points and selection
        nb = len(r['bounds'])
        us = np.random.default_rng(c['seed']).random(size=nb * c['n_runs'] + 4)
        q = C.qlit
        tbl = C.coqlist(['(' + C.coqlist([q(v) for v in cl['x0']]) + ', mkRes ' + C.coqlist([q(v) for v in cl['x']])
                         + f' {q(cl["fun"])} {"true" if cl["success"] else "false"})' for cl in r['calls']])
        x0 = 'None' if c['x0'] is None else '(Some ' + C.coqlist([q(v) for v in c['x0']]) + ')'
        inf0 = f'(mkInf {C.coqlist(["(" + q(b[0]) + ", " + q(b[1]) + ")" for b in r["bounds"]])} {x0} None None [] [])'
        body = (f'Eval vm_compute in (map showQs (start_points {inf0} {c["n_runs"]}%nat {C.coqlist([q(float(u)) for u in us])})).\n'
                f'Eval vm_compute in (show_inf (run (table_opt {tbl}) (mkInf {C.coqlist(["(" + q(b[0]) + ", " + q(b[1]) + ")" for b in r["bounds"]])} '
                f'(Some {C.coqlist([q(v) for v in r["calls"][0]["x0"]])}) None None [] []) 1%nat [])).\n')
        # selection replay: feed the recorded start points directly
        starts = C.coqlist([C.coqlist([q(v) for v in cl['x0']]) for cl in r['calls']])
        body += (f'Eval vm_compute in (let rs := map (table_opt {tbl}) {starts} in match rs with [] => ([], [], 0%nat) | r0 :: rest => '
                 f'let b := argmin_first r0 rest in ([showQs (r_x b)], [showQ (r_fun b)], length rs) end).\n')
        bodies.append(body)
        keep.append((c, r))
    couts = C.run_coq_cases('C19', 'inference', HEADER, bodies, timeout=600)
    for (c, r), (rc, vals, raw) in zip(keep, couts):
        if rc != 0 or len(vals) != 3:
            res.violation('inference model evaluation failed', {'case': c, 'coq_output': raw[-1500:]}, concrete=False)
            continue
        fq = lambda pq: Fr(pq[0], pq[1])
        starts = [[fq(v) for v in row] for row in C.parse_term(vals[0])]
        obs = [cl['x0'] for cl in r['calls']]
        if c.get('x0_reversed'):
            obs = [list(reversed(o)) for o in obs]
        if len(starts) != len(obs) or any(not C.close(a, b, rel=Fr(1, 10 ** 14)) for ra, rb in zip(starts, obs) for a, b in zip(ra, rb)):
            res.violation('seeded start points differ from the model (x0 followed by uniform samples within the bounds)',
                          {'case': c, 'model': [[float(v) for v in row] for row in starts], 'observed': obs})
        px, pl_, nres = C.parse_term(vals[2])
        m = r['main']
        mp_ = [float(fq(v)) for v in px[0]] if nres else []
        if c.get('x0_reversed'):
            mp_ = list(reversed(mp_))
        if nres and (mp_ != list(m['params'].values()) or float(fq(pl_[0])) != m['loss']):
            res.violation('selected run differs from the model (first minimal loss)',
                          {'case': c, 'model_params': [float(fq(v)) for v in px[0]], 'model_loss': float(fq(pl_[0])), 'observed': m})
        res.sample({'case': c, 'result': m}, cap=2)
    # the optimised parameter is a parameter of the coalescent model: state-space caching on and off must agree, the generating
    # value must be recovered
    mcases = [] if replay else [{'family': 'beta', 'n': 4, 'truth': 1.625, 'x0': 1.25, 'bounds': [1.05, 1.95], 'seed': 5},
                                 {'family': 'dirac', 'n': 4, 'truth': 0.625, 'x0': 0.25, 'bounds': [0.05, 0.95], 'seed': 6}][: (1 if res.tier == 'quick' else 2)]
    mouts = C.run_impl_parallel('inference.py', [{'mode': 'modelparam', 'cases': [mc]} for mc in mcases], timeout=2400) if mcases else []
    for mc, o in zip(mcases, mouts):
        rr = o['results'][0]
        res.count(('modelparam', json.dumps(mc)))
        if 'error' in rr:
            res.violation('inference over a model parameter raised', {'case': mc, 'error': rr['error']})
            continue
        a, b = rr['cache_on'], rr['cache_off']
        if C.gt(abs(a['v'] - b['v']), 1e-6) or C.gt(abs(a['loss'] - b['loss']), 1e-9 * max(1.0, abs(b['loss']))):
            res.violation('state-space caching on/off changes the result of an inference over a model parameter', {'case': mc, 'cache_on': a, 'cache_off': b})
        elif C.gt(abs(a['loss_at'] - a['loss']), 1e-9 * max(1.0, abs(a['loss'])) + 1e-15):
            res.violation('reported loss is not the loss at the reported parameters (inference over a model parameter)', {'case': mc, 'result': a})
        elif C.gt(abs(a['v'] - mc['truth']), 1e-3):
            res.violation('generating model parameter not recovered on noise-free data', {'case': mc, 'result': a})
    res.stream('inference', cases=len(cases), model_parameter_cases=len(mcases))
    res.extra['input_distribution'] = {'n_runs': sorted(c['n_runs'] for c in cases), 'two_params': sum(1 for c in cases if c['two_params']),
                                       'loss': sorted(c['loss'] for c in cases), 'explicit_x0': sum(1 for c in cases if c['x0'] is not None)}
