"""C15 - moment algebra and documented API routes agree with each other."""
import random

import common as C
import gen
import numeric as N
import orc


def rand_reward(rng, pops, n, lc):
    base = [['TreeHeight'], ['TotalBranchLength'], ['Deme', rng.choice(pops)]]
    # TotalTreeHeightReward declares block-counting support but raises NotImplementedError there (loud): only used
    # on the lineage-counting space
    base += [['Lineage', rng.randrange(2, n + 1)], ['TotalTreeHeight']] if lc else [['UnfoldedSFS', rng.randrange(1, n)], ['FoldedSFS', rng.randrange(1, n // 2 + 1)]]
    r = rng.choice(base)
    x = rng.random()
    if x < 0.2:
        return ['Product', [r, rng.choice(base)]]
    if x < 0.4:
        return ['Sum', [r, rng.choice(base)]]
    if x < 0.5:
        return ['Combined', [r, ['Deme', rng.choice(pops)]]]
    return r


def run(res, replay=None):
    # structural tie of the moment assembly (accumulate: centring, permutations; moment: windows) of phasegen/distributions.py: translate the CURRENT source and re-check proofs/GenMomentsEquiv.v
    import translate_step; (res.proof is not None) and translate_step.run(res.proof, pid=res.pid, tie='moments')
    # pinned reading of the routes of class Coalescent (which distribution / state space / reward answers which request): re-check the CURRENT source against it and proofs/GenCoalescentEquiv.v
    import translate_step; (res.proof is not None) and translate_step.run(res.proof, pid=res.pid, tie='coalescent')
    # structural tie of the numeric loops (_accumulate incl. the sort of the end times and its inverse permutation; cdf): translate the CURRENT source and re-check proofs/GenLoopsEquiv.v
    import translate_step; (res.proof is not None) and translate_step.run(res.proof, pid=res.pid, tie='loops')
    # structural tie of phasegen/rewards.py: translate the CURRENT source and re-check proofs/GenRewardsEquiv.v against it
    import translate_step; (res.proof is not None) and translate_step.run(res.proof, pid=res.pid, tie='rewards')
    # pinned reading of the SFS assembly incl. SFSDistribution.accumulate / get_accumulation (center and permute handed on to every bin): re-check the CURRENT source against it and proofs/GenSfsEquiv.v
    import translate_step; (res.proof is not None) and translate_step.run(res.proof, pid=res.pid, tie='sfs')
    rng = random.Random(res.seed)
    res.rule = ('routes stream: random configurations (n<=4, 1-2 demes, three models, 1-2 epochs) and random reward tuples of '
                'order 2-3 built from the public reward classes incl. nested Sum/Product/Combined: central = binomial '
                'combination of raw moments, symmetry in the rewards, linearity of sums, pointwise products, equal rewards '
                'built twice; every documented route to the same statistic (cached properties, dist.moment, '
                'Coalescent.moment with default/explicit rewards, end time on object or call, accumulate); plus numeric '
                'correspondence of one cross moment with the Gallina model')
    res.assumptions = []
    ncase = 10 if res.tier == 'quick' else 80
    cases = []
    if replay:
        cases = [replay['replay']['case']]
    else:
        for i in range(ncase):
            s = gen.rand_spec(rng, n_total=rng.choice([2, 3, 4]), n_demes=rng.choice([1, 2]), n_epochs=rng.choice([1, 2]), end_time='never')
            pops = [p for p, _ in s['n_items']]
            lc = rng.random() < 0.6
            k = rng.choice([2, 2, 3])
            n = gen.effective_n(s)
            if n < 3:
                lc = True
            cases.append({'spec': s, 'rewards': [rand_reward(rng, pops, n, lc) for _ in range(k)], 'T': rng.choice([0.5, 1.0, 2.0])})
    if not replay and cases:
        cases[0]['two_locus_history'] = 1.0
        cases[-1]['two_locus_history'] = 0.25
    orc.run_oracle(res, 'routes', cases)
    items = []
    for c in cases[: (4 if res.tier == 'quick' else 20)]:
        if any('SFS' in str(r) for r in c['rewards']):
            continue
        k = len(c['rewards'])
        items.append(dict(spec=c['spec'], lc=True, ops=[dict(
            py={'kind': 'moment', 'route': 'coal', 'k': k, 'rewards': c['rewards'], 'center': True},
            queries=[dict(kind='moment', k=k, rewards=c['rewards'], center=True)] +
                    [dict(kind='moment', k=1, rewards=[r]) for r in c['rewards']],
            combine=N.one, tol='higher',
            scale=lambda mq: abs(__import__('math').prod(x[0] for x in mq[1:])))]))
    N.run_items(res, 'C15', 'cross_moments', items, what='central cross moment differs from the model value')
    res.extra['input_distribution'] = {'orders': sorted(len(c['rewards']) for c in cases)}
