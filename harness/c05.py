"""C05 - the epoch schedule reproduces the demography the user specified."""
import random
from fractions import Fraction as Fr

import json
import common as C
import demog
import gen

POPS = ['a', 'b', 'c']
MIGVALS = [0.0, 0.125, 0.25, 0.5, 1.0, 2.0]


def rtime(rng, allow0=True):
    return rng.choice(([0.0] if allow0 else []) + [0.25, 0.5, 0.75, 1.0, 1.5, 2.0, 3.0, 0.125])


def rsize(rng):
    return rng.choice([0.125, 0.25, 0.5, 1.0, 2.0, 4.0, 8.0, 3.0, 0.75])


def rand_event(rng, pops, allow_discretised=True, allow_split=True):
    kinds = ['PopSizeChange', 'PopSizeChanges', 'MigrationRateChange', 'MigrationRateChanges',
             'SymmetricMigrationRateChanges', 'DiscreteRateChanges']
    if allow_split and len(pops) > 1:
        kinds.append('PopulationSplit')
    if allow_discretised:
        kinds += ['DiscretizedRateChange', 'DiscretizedRateChanges', 'ExponentialPopSizeChanges', 'ExponentialRateChanges']
    if len(pops) == 1:
        kinds = [k for k in kinds if 'Migration' not in k]
    k = rng.choice(kinds)
    p = rng.choice(pops)
    q = rng.choice([x for x in pops if x != p]) if len(pops) > 1 else p
    if k == 'PopSizeChange':
        return {'type': k, 'pop': p, 'time': rtime(rng), 'size': rsize(rng)}
    if k == 'PopSizeChanges':
        return {'type': k, 'pop_sizes': {x: {repr(rtime(rng)): rsize(rng) for _ in range(rng.randrange(1, 3))}
                                         for x in rng.sample(pops, rng.randrange(1, len(pops) + 1))}}
    if k == 'MigrationRateChange':
        return {'type': k, 'source': p, 'dest': q, 'time': rtime(rng), 'rate': rng.choice(MIGVALS)}
    if k == 'MigrationRateChanges':
        return {'type': k, 'rates': {f'{p}>{q}': {repr(rtime(rng)): rng.choice(MIGVALS) for _ in range(rng.randrange(1, 3))}}}
    if k == 'SymmetricMigrationRateChanges':
        if rng.random() < 0.5:
            return {'type': k, 'pops': list(pops), 'rate': rng.choice(MIGVALS)}
        return {'type': k, 'pops': list(pops), 'rate': {repr(rtime(rng)): rng.choice(MIGVALS) for _ in range(2)}}
    if k == 'DiscreteRateChanges':
        e = {'type': k, 'pop_sizes': {p: {repr(rtime(rng)): rsize(rng)}}}
        if len(pops) > 1:
            e['migration_rates'] = {f'{p}>{q}': {repr(rtime(rng)): rng.choice(MIGVALS)}}
        return e
    if k == 'PopulationSplit':
        return {'type': k, 'time': rtime(rng, False), 'derived': p, 'ancestral': q, 'multiplier': rng.choice([100, 64])}
    if k in ('ExponentialPopSizeChanges', 'ExponentialRateChanges'):
        keys = rng.sample(pops, rng.randrange(1, len(pops) + 1))
        if k == 'ExponentialRateChanges' and len(pops) > 1 and rng.random() < 0.5:
            keys = [f'{p}>{q}', f'{q}>{p}']
        name = 'initial_size' if k == 'ExponentialPopSizeChanges' else 'initial_rate'
        per_key = rng.random() < 0.6
        return {'type': k, name: {x: rsize(rng) for x in keys},
                'growth_rate': {x: rng.choice([-0.5, 0.25, 0.5, 1.0]) for x in keys} if per_key else rng.choice([0.25, 0.5]),
                'start_time': {x: rng.choice([0.0, 0.25, 0.5]) for x in keys} if per_key else rng.choice([0.0, 0.25]),
                'end_time': rng.choice([None, 2.0, 1.5]), 'step_size': rng.choice([0.25, 0.5])}
    pts = sorted({rtime(rng) for _ in range(3)} | {0.0, 4.0})
    points = [[t, rsize(rng)] for t in pts]
    st = rng.choice([0.0, 0.125, 0.25, 0.5, 1.0])
    en = rng.choice([None, None, st + rng.choice([0.5, 1.0, 1.25, 2.0])])
    step = rng.choice([0.25, 0.5, 0.375, 1.0])
    if k == 'DiscretizedRateChange':
        if len(pops) > 1 and rng.random() < 0.3:
            return {'type': k, 'points': [[t, abs(v)] for t, v in points], 'start_time': st, 'end_time': en,
                    'source': p, 'dest': q, 'step_size': step}
        return {'type': k, 'points': points, 'start_time': st, 'end_time': en, 'pop': p, 'step_size': step}
    keys = rng.sample(pops, min(len(pops), 2))
    return {'type': 'DiscretizedRateChanges', 'points': {x: [[t, rsize(rng)] for t in pts] for x in keys},
            'start_time': {x: rng.choice([0.0, 0.25, 0.5]) for x in keys}, 'end_time': en, 'step_size': step}


def rand_demography(rng, discrete_only=False):
    npop = rng.choice([1, 2, 2, 3])
    pops = POPS[:npop]
    spec = {}
    shape = rng.choice(['nested', 'const', 'events', 'mixed', 'mixed'])
    if shape in ('nested', 'mixed'):
        spec['pop_sizes'] = {p: {repr(t): rsize(rng) for t in sorted({0.0} | {rtime(rng) for _ in range(rng.randrange(0, 3))})}
                             for p in rng.sample(pops, len(pops))}
        if npop > 1 and rng.random() < 0.8:
            spec['migration_rates'] = {f'{p}>{q}': {repr(t): rng.choice(MIGVALS) for t in sorted({0.0} | {rtime(rng)})}
                                       for p in pops for q in pops if p != q and rng.random() < 0.8}
            if not spec['migration_rates']:
                del spec['migration_rates']
    elif shape == 'const':
        spec['pop_sizes'] = {p: rsize(rng) for p in rng.sample(pops, len(pops))}
        if npop > 1:
            spec['migration_rates'] = {f'{p}>{q}': rng.choice(MIGVALS) for p in pops for q in pops if p != q}
    nev = 0 if shape in ('nested', 'const') else rng.randrange(1, 5)
    evs = [rand_event(rng, pops, allow_discretised=not discrete_only) for _ in range(nev)]
    if shape == 'events' and not any(set(demog.event_pops(e)) >= set(pops) for e in evs):
        evs.append({'type': 'PopSizeChanges', 'pop_sizes': {p: {'0.0': rsize(rng)} for p in pops}})
    k = rng.randrange(0, len(evs) + 1)
    rng.shuffle(evs)
    if evs[:k]:
        spec['events'] = evs[:k]
    if evs[k:]:
        spec['added_events'] = evs[k:]
    if not spec:
        spec['pop_sizes'] = {p: 1.0 for p in pops}
    spec['explicit_demography'] = True
    return spec


def spec_rate_at(spec, pops, key, t):
    """SPEC oracle for discrete-only demographies, written independently of the model: the most
    recent change at or before t; among equal times the event applied later (events sorted stably by
    their first change time; the constructor's dictionaries form the last-listed event)."""
    evs = []   # list of (start, [(time, key, value)])
    def disc(sizes, migs):
        ch = []
        for p, d in sizes.items():
            for tt, v in d.items():
                ch.append((float(tt), p, v))
        for k, d in migs.items():
            for tt, v in d.items():
                ch.append((float(tt), k, v))
        return (min(c[0] for c in ch), ch)
    def norm(e):
        ty = e['type']
        if ty == 'PopSizeChange': return disc({e['pop']: {e['time']: e['size']}}, {})
        if ty == 'PopSizeChanges': return disc(e['pop_sizes'], {})
        if ty == 'MigrationRateChange': return disc({}, {f"{e['source']}>{e['dest']}": {e['time']: e['rate']}})
        if ty == 'MigrationRateChanges': return disc({}, e['rates'])
        if ty == 'SymmetricMigrationRateChanges':
            r = e['rate'] if isinstance(e['rate'], dict) else {0.0: e['rate']}
            return disc({}, {f'{p}>{q}': r for p in e['pops'] for q in e['pops'] if p != q})
        if ty == 'DiscreteRateChanges': return disc(e.get('pop_sizes', {}), e.get('migration_rates', {}))
        return None
    for e in spec.get('events') or []:
        evs.append(norm(e))
    ps, mr = spec.get('pop_sizes') or {}, spec.get('migration_rates') or {}
    ps = {p: (d if isinstance(d, dict) else {0.0: d}) for p, d in ps.items()}
    mr = {k: (d if isinstance(d, dict) else {0.0: d}) for k, d in mr.items()}
    if ps or mr:
        evs.append(disc(ps, mr))
    for e in spec.get('added_events') or []:
        evs.append(norm(e))
    if any(e is None for e in evs):
        return None
    order = sorted(range(len(evs)), key=lambda i: evs[i][0])   # stable
    best = None
    for rank, i in enumerate(order):
        for (tt, k, v) in evs[i][1]:
            if k == key and tt <= t:
                cand = (tt, rank, v)
                if best is None or (cand[0], cand[1]) >= (best[0], best[1]):
                    best = cand
    if best is None:
        return 0.0 if '>' in key else 1.0
    return best[2]


def has(spec, types):
    return any(e['type'] in types for e in (spec.get('events') or []) + (spec.get('added_events') or []))


def run(res, replay=None):
    # structural tie of the epoch machinery of phasegen/demography.py (generator, get_epochs, discrete _broadcast / _apply): translate the CURRENT source and re-check proofs/GenDemographyEquiv.v
    import translate_step; (res.proof is not None) and translate_step.run(res.proof, pid=res.pid, tie='demography')
    # structural tie of the configuration classes incl. class Epoch (its copies, zero-filled rates, __eq__ / __hash__): translate the CURRENT source and re-check proofs/GenConfigsEquiv.v
    import translate_step; (res.proof is not None) and translate_step.run(res.proof, pid=res.pid, tie='configs')
    rng = random.Random(res.seed)
    res.rule = ('demography stream: random demographies over 1-3 populations written as nested dicts, constants, '
                'event lists (all nine public event classes), add_event in random order (with get_epoch look-ups interleaved between the additions in half of the cases), coincident dyadic times, '
                'discretised piecewise-linear trajectories; the first 14 epochs compared field by field with the '
                'Gallina epoch generator (exact; 1e-12 for discretised means); get_epoch/get_epochs at times on and '
                'off boundaries compared with the SPEC rate_at; non-trivial = demography with at least two epochs; '
                'distinct = distinct specs')
    res.assumptions = ['argument normalisation of Demography.__init__/DiscreteRateChanges.__init__ is modelled by '
                       'harness/demog.py (events_coq), the generator itself by coq/theories/model/Demography.v']
    ncase = 60 if res.tier == 'quick' else 600
    specs = [replay['replay']['spec']] if replay else \
        [rand_demography(rng, discrete_only=(i % 3 == 0)) for i in range(ncase)]
    if not replay:
        # deterministic inputs that re-confirm the recorded findings D4 (one split) and D15 (two chained splits at the same time)
        specs.append({'pop_sizes': {'a': {'0.0': 1.0}, 'b': {'0.0': 4.0}},
                      'added_events': [{'type': 'PopulationSplit', 'time': 1.0, 'derived': 'b', 'ancestral': 'a', 'multiplier': 100}],
                      'explicit_demography': True})
        specs.append({'pop_sizes': {'a': {'0.0': 1.0}, 'b': {'0.0': 2.0}, 'c': {'0.0': 4.0}},
                      'added_events': [{'type': 'PopulationSplit', 'time': 0.5, 'derived': 'c', 'ancestral': 'b', 'multiplier': 64},
                                       {'type': 'PopulationSplit', 'time': 0.5, 'derived': 'b', 'ancestral': 'a', 'multiplier': 100}],
                      'explicit_demography': True})
    if not replay:
        # designed (seed-independent): schedules whose time keys are WRITTEN in an order that is not ascending (descending, middle first), for
        # every event class that takes a mapping from times to values: the change in force at t is the most recent one at or before t
        for order in (['2.0', '0.5', '1.0'], ['1.0', '2.0', '0.5'], ['2.0', '1.0', '0.5']):
            rate = {t: {'0.5': 1.0, '1.0': 4.0, '2.0': 0.25}[t] for t in order}
            size = {t: {'0.5': 2.0, '1.0': 0.5, '2.0': 8.0}[t] for t in order}
            base = {'pop_sizes': {'a': {'0.0': 1.0}, 'b': {'0.0': 2.0}}, 'migration_rates': {'a>b': {'0.0': 0.5}, 'b>a': {'0.0': 0.125}}}
            specs.append(dict(base, events=[{'type': 'SymmetricMigrationRateChanges', 'pops': ['a', 'b'], 'rate': rate}]))
            specs.append(dict(base, events=[{'type': 'MigrationRateChanges', 'rates': {'a>b': rate}}, {'type': 'PopSizeChanges', 'pop_sizes': {'b': size}}]))
            specs.append(dict(base, events=[{'type': 'DiscreteRateChanges', 'pop_sizes': {'a': size}, 'migration_rates': {'b>a': rate}}]))
            specs.append({'pop_sizes': {'a': dict({'0.0': 1.0}, **size), 'b': {'0.0': 2.0}}, 'migration_rates': {'a>b': dict(rate, **{'0.0': 0.5}), 'b>a': {'0.0': 0.125}}})
    NE = 14
    lookups = [0.0, 0.125, 0.25, 0.3, 0.5, 0.75, 1.0, 1.25, 1.5, 2.0, 2.5, 3.0, 7.0]
    cases = [{'spec': s, 'n_epochs': NE, 'lookup': rng.sample(lookups, 6)} for s in specs]
    if not replay:
        for i, c in enumerate(cases):
            if i % 2 == 0 and c['spec'].get('added_events'):
                # epochs are looked up at the same times WHILE the demography is still being assembled with add_event
                c['spec']['probe_times'] = list(c['lookup'])
    if not replay:
        # the demography as completed by a Coalescent whose sample names a population the demography does not mention (the missing
        # population gets size 1 from time 0; everything the user specified - also at time 0 - stays in force)
        for j in range(6 if res.tier == 'quick' else 40):
            base = rand_demography(rng, discrete_only=True)
            dp = demog.all_pops(base)
            if not dp:
                continue
            s2 = dict(base)
            if isinstance(s2.get('pop_sizes'), dict) and j % 2 == 0:
                s2['pop_sizes'] = {p: dict(d, **{'0.0': rng.choice([2.0, 4.0, 0.5])}) if isinstance(d, dict) else d for p, d in s2['pop_sizes'].items()}
            s2['n_items'] = [[dp[0], 2], ['zz', 1]] if j % 3 else [['zz', 1], [dp[-1], 2]]
            cases.append({'spec': s2, 'n_epochs': NE, 'lookup': rng.sample(lookups, 6), 'via_coalescent': True, 'extra': ['zz']})
    chunks = [cases[i::C.NCPU] for i in range(C.NCPU)]
    chunks = [c for c in chunks if c]
    outs = C.run_impl_parallel('demography.py', [{'cases': c} for c in chunks])
    impl = {}
    for ch, o in zip(chunks, outs):
        for c, r in zip(ch, o['results']):
            impl[id(c)] = r
    bodies, idx = [], []
    for c in cases:
        r = impl[id(c)]
        if 'error' in r:
            res.violation('valid demography raised', {'spec': c['spec'], 'error': r['error']})
            continue
        pops = demog.all_pops(c['spec'])
        if c.get('extra'):
            pops = sorted(set(pops) | set(c['extra']))
        if pops != r['pops']:
            res.violation('population names differ', {'spec': c['spec'], 'model': pops, 'observed': r['pops']})
            continue
        b = (f'Eval vm_compute in (map show_epoch (epochs {len(pops)}%nat {demog.events_coq(c["spec"], pops, extra_sizes=c.get("extra"))} {NE}%nat)).\n')
        bodies.append(b)
        idx.append(c)
    nsh = min(C.NCPU, max(1, len(bodies)))
    shards = [list(range(i, len(bodies), nsh)) for i in range(nsh)]
    outs = C.run_coq_cases('C05', 'demography', demog.HEADER, ['\n'.join(bodies[i] for i in sh) for sh in shards])
    n_disc = n_split = n_discrete_only = 0
    for sh, (rc, vals, raw) in zip(shards, outs):
        if rc != 0 or len(vals) != len(sh):
            res.violation('model evaluation of the demography failed',
                          {'coq_output': raw[-1500:], 'specs': [idx[i]['spec'] for i in sh][:2]}, concrete=False)
            continue
        for i, v in zip(sh, vals):
            c = idx[i]
            r = impl[id(c)]
            spec = c['spec']
            meps = [demog.parse_epoch(t) for t in C.parse_term(v)]
            discretised = has(spec, ('DiscretizedRateChange', 'DiscretizedRateChanges', 'ExponentialPopSizeChanges', 'ExponentialRateChanges'))
            split = has(spec, ('PopulationSplit',))
            n_disc += discretised
            n_split += split
            tol = Fr(1, 10 ** 12) if discretised else 0
            res.count(gen.spec_key(spec), nontrivial=len(r['epochs']) > 1)
            if len(meps) != len(r['epochs']):
                res.violation('number of epochs differs from the model',
                              {'spec': spec, 'model': len(meps), 'observed': len(r['epochs'])})
                continue
            bad = None
            for j, (m, e) in enumerate(zip(meps, r['epochs'])):
                f = demog.epochs_equal(m, e, tol)
                if f:
                    bad = (j, f, m, e)
                    break
            if bad:
                j, f, m, e = bad
                res.violation(f'epoch {j}: {f} differs from the model of the epoch generator',
                              {'spec': spec, 'epoch_index': j, 'field': f, 'observed': e,
                               'expected': {'start': float(m['start']), 'end': None if m['end'] is None else float(m['end']),
                                            'sizes': [float(x) for x in m['sizes']],
                                            'mig': [[float(x) for x in row] for row in m['mig']]}})
                continue
            # oracle on the implementation: tiling
            eps = r['epochs']
            if eps[0]['start'] != 0 or any(a['end'] != b['start'] for a, b in zip(eps, eps[1:])) or \
                    any(a['end'] is not None and not a['start'] < a['end'] for a in eps):
                res.violation('epochs do not tile [0, inf)', {'spec': spec, 'epochs': eps[:6]})
            if len(eps) < NE and eps[-1]['end'] is not None:
                res.violation('last epoch is not infinite', {'spec': spec, 'epochs': eps[-2:]})
            # get_epoch / get_epochs agree and contain the query time
            for t, e1, e2 in zip(c['lookup'], r['lookup'], r['lookup_vec']):
                if e1 != e2 or not (e1['start'] <= t and (e1['end'] is None or t < e1['end'])):
                    res.violation('get_epoch/get_epochs return the wrong epoch', {'spec': spec, 't': t, 'single': e1, 'vector': e2})
            # SPEC oracle rate_at (discrete-only demographies)
            if not discretised and not split:
                n_discrete_only += 1
                pops = r['pops']
                for t, e1 in zip(c['lookup'], r['lookup']):
                    for pi, p in enumerate(pops):
                        exp = spec_rate_at(spec, pops, p, t)
                        if exp is not None and e1['sizes'][pi] != exp:
                            res.violation('population size in force is not that of the most recent change',
                                          {'spec': spec, 't': t, 'pop': p, 'expected': exp, 'observed': e1['sizes'][pi]})
                        for qi, q in enumerate(pops):
                            if p != q:
                                exp = spec_rate_at(spec, pops, f'{p}>{q}', t)
                                if exp is not None and e1['mig'][pi][qi] != exp:
                                    res.violation('migration rate in force is not that of the most recent change',
                                                  {'spec': spec, 't': t, 'key': f'{p}>{q}', 'expected': exp,
                                                   'observed': e1['mig'][pi][qi]})
            # SPEC oracle for population splits: after the split lineages of the derived population join the ancestral one
            if split:
                pops = r['pops']
                for e in (spec.get('events') or []) + (spec.get('added_events') or []):
                    if e['type'] != 'PopulationSplit':
                        continue
                    # a specification that ALSO sets the rate derived -> ancestral explicitly at the very time of the split gives two
                    # instructions for one entry at one time (which one wins is an order of application the property does not fix): the
                    # split oracle does not apply to it
                    key_ = f"{e['derived']}>{e['ancestral']}"
                    def sets_key_at(ev, tm):
                        ty = ev.get('type')
                        if ty == 'MigrationRateChange':
                            return f"{ev['source']}>{ev['dest']}" == key_ and float(ev['time']) == tm
                        if ty == 'MigrationRateChanges':
                            return any(float(t_) == tm for t_ in (ev['rates'].get(key_) or {}))
                        if ty == 'SymmetricMigrationRateChanges':
                            rt = ev['rate'] if isinstance(ev['rate'], dict) else {'0.0': ev['rate']}
                            return e['derived'] in ev['pops'] and e['ancestral'] in ev['pops'] and any(float(t_) == tm for t_ in rt)
                        if ty == 'DiscreteRateChanges':
                            return any(float(t_) == tm for t_ in ((ev.get('migration_rates') or {}).get(key_) or {}))
                        if ty in ('DiscretizedRateChange', 'DiscretizedRateChanges', 'ExponentialRateChanges'):
                            return key_ in json.dumps(ev)      # a trajectory on this entry: its grid may hit the split time
                        return False
                    top_ = (spec.get('migration_rates') or {}).get(key_)
                    top_ = top_ if isinstance(top_, dict) else ({'0.0': top_} if top_ is not None else {})
                    if any(float(t_) == float(e['time']) for t_ in top_) or \
                            any(sets_key_at(ev, float(e['time'])) for ev in (spec.get('events') or []) + (spec.get('added_events') or []) if ev is not e):
                        res.count('split-with-simultaneous-explicit-rate (oracle not applicable)')
                        continue
                    der, anc = pops.index(e['derived']), pops.index(e['ancestral'])
                    for ep in eps:
                        if ep['start'] <= e['time'] and (ep['end'] is None or e['time'] < ep['end']):
                            fwd, rev = ep['mig'][der][anc], ep['mig'][anc][der]
                            if not fwd > 0:
                                # does this input fail BECAUSE of the recorded defect D4 (PopulationSplit._apply writes the transposed
                                # keys)?  The same specification is evaluated with _apply replaced by the documented key convention;
                                # if the derived lineages then do move to the ancestral population, the failure is the known finding
                                # (whatever other events of the specification did to the wrongly written entries); otherwise it is new
                                rr2 = C.run_impl('demography.py', {'documented_split': True, 'cases': [{'spec': spec, 'n_epochs': NE}]})['results'][0]
                                fwd_doc = None
                                if 'error' not in rr2:
                                    for ep2 in rr2['epochs']:
                                        if ep2['start'] <= e['time'] and (ep2['end'] is None or e['time'] < ep2['end']):
                                            fwd_doc = ep2['mig'][rr2['pops'].index(e['derived'])][rr2['pops'].index(e['ancestral'])]
                                reversed_as_known = fwd == 0 and fwd_doc is not None and fwd_doc > 0
                                # a second recorded finding: two splits at the SAME time where the ancestral population of this split is
                                # itself the derived population of the other one (c joins b while b joins a): whichever key convention
                                # is used, the other split zeroes every rate of the intermediate population, so c is cut off
                                chained = fwd == 0 and not reversed_as_known and any(
                                    e2 is not e and e2['type'] == 'PopulationSplit' and float(e2['time']) == float(e['time'])
                                    and e['ancestral'] in ([e2['derived']] if isinstance(e2['derived'], str) else e2['derived'])
                                    for e2 in (spec.get('events') or []) + (spec.get('added_events') or []))
                                res.violation('population split does not move derived lineages to the ancestral population',
                                              {'spec': spec, 'split': e, 'epoch': ep, 'rate_derived_to_ancestral': fwd,
                                               'rate_ancestral_to_derived': rev, 'rate_derived_to_ancestral_with_documented_keys': fwd_doc},
                                              finding_key=('D4-population-split-direction' if reversed_as_known else
                                                           ('D15-chained-simultaneous-splits' if chained else None)))
            res.sample({'spec': spec, 'epochs': len(eps)}, cap=4)
    # deterministic probe of the known grid-fringe finding D5
    probe = {'pop_sizes': {'a': {'0.0': 1.0, repr(1 - 5e-11): 2.0}},
             'events': [{'type': 'DiscretizedRateChange', 'points': [[0.0, 1.0], [4.0, 1.0]], 'start_time': 0.0,
                         'end_time': None, 'pop': 'b', 'step_size': 0.5}], 'explicit_demography': True}
    pr = C.run_impl('demography.py', {'cases': [{'spec': probe, 'n_epochs': 6}]})['results'][0]
    res.count('probe-D5')
    if 'error' not in pr:
        starts = [e['start'] for e in pr['epochs']]
        if 1.0 not in starts:
            res.violation('grid point 1.0 of a discretised event is not an epoch boundary when a change lies within 1e-10 below it',
                          {'spec': probe, 'epoch_starts': starts}, finding_key='D5-grid-fringe-1e-10')
    res.stream('demography', specs=len(specs), with_discretised=n_disc, with_split=n_split, discrete_only=n_discrete_only)
    res.extra['input_distribution'] = {'specs': len(specs), 'with_discretised': n_disc, 'with_split': n_split,
                                       'discrete_only_spec_oracle': n_discrete_only,
                                       'by_npops': {str(k): sum(1 for s in specs if len(demog.all_pops(s)) == k) for k in (1, 2, 3)}}
