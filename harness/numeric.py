"""Numeric correspondence: the end-to-end Gallina model (Pipeline.v) evaluated over binary64 with the
Taylor/squaring matrix exponential (ExpmF.v) against the implementation (SciPy backend)."""
from fractions import Fraction as Fr

import json
import common as C
import demog
import gen
import space

HEADER = """From Coq Require Import ZArith QArith List PrimFloat.
From PG Require Import base.Ops model.CoalModels model.StateSpace model.Rewards model.Demography
                       model.Matrix model.ExpmF model.PhaseType model.Pipeline.
Import ListNotations.
Open Scope Q_scope.
"""


def fmodel_coq(m):
    if m is None or m['kind'] == 'kingman':
        return 'Kingman'
    st = 'true' if m.get('scale_time', True) else 'false'
    if m['kind'] == 'beta':
        return f'(Beta {C.flit(m["alpha"])}%float {st})'
    return f'(Dirac {C.flit(m["psi"])}%float {C.flit(m["c"])}%float {st})'


def qlist(ts):
    return C.coqlist([C.qlit(t) for t in ts])


def query_coq(q, pops):
    """q: dict(kind=moment|accumulate|cdf, k, rewards (list of reward specs), center, permute, start, end, ts)"""
    b = lambda x: 'true' if x else 'false'
    if q['kind'] == 'cdf':
        return f'(QCdf {qlist(q["ts"])})'
    rs = C.coqlist([space.reward_coq(r, pops) for r in q['rewards']])
    if q['kind'] == 'moment':
        return (f'(QMoment {q["k"]}%nat {rs} {b(q.get("center", True))} {b(q.get("permute", True))} '
                f'{C.qlit(q.get("start") or 0.0)} {C.qlit(q["end"])})')
    return (f'(QAccumulate {q["k"]}%nat {rs} {b(q.get("center", True))} {b(q.get("permute", True))} {qlist(q["ts"])})')


def config_coq(spec, lineage_pops, lineage_counts, dem_pops, lc, beta_scale=None):
    m = spec.get('model') or {'kind': 'kingman'}
    nl = spec.get('loci', 1)
    n = sum(lineage_counts)
    perm = [dem_pops.index(p) for p in lineage_pops]
    fuel = 4 * n * nl + 2 * len(lineage_pops) * n + 10
    rec = spec.get('recombination_rate') or 0.0
    if m['kind'] == 'beta' and m.get('scale_time', True):
        # scaled Beta model: the time scale contains real powers; the model receives the documented value, computed
        # independently of the implementation, as a table over the population sizes of the configuration
        bs = '(fun N a => ' + ''.join(f'if PrimFloat.eqb N {C.flit(N)}%float then {C.flit(C.beta_timescale(m["alpha"], N))}%float else '
                                      for N in C.spec_sizes(spec)) + '0%float)'
    else:
        bs = '(fun N a => 0%float)' if beta_scale is None else f'(fun N a => {C.flit(beta_scale)}%float)'
    return (f'(mkConfig (T:=float) {fmodel_coq(m)} {bs} {nl}%nat {C.natlist(lineage_counts)} {C.natlist(perm)} '
            f'{spec.get("n_unlinked", 0)}%nat {C.flit(rec)}%float {b2(lc)} {fuel}%nat)')


def b2(x):
    return 'true' if x else 'false'


def case_text(idx, spec, info, queries_lc, queries_bc, n_epochs=40):
    """Coq text evaluating the queries of one configuration; returns (text, n_evals)"""
    dem_pops = info['demography_pops']
    lp, lcnt = info['lineage_pops'], info['lineage_counts']
    extra = [p for p in dem_pops if p not in demog.all_pops(spec)]
    txt = f'Definition evs{idx} := {demog.events_coq(spec, dem_pops, extra_sizes=extra)}.\n'
    txt += f'Definition eps{idx} := epochs {len(dem_pops)}%nat evs{idx} {n_epochs}%nat.\n'
    n = 0
    for tag, qs, lc in (('lc', queries_lc, True), ('bc', queries_bc, False)):
        if not qs:
            continue
        txt += f'Definition cfg{idx}{tag} := {config_coq(spec, lp, lcnt, dem_pops, lc)}.\n'
        txt += (f'Eval vm_compute in (answers OpsF expmF cfg{idx}{tag} eps{idx} 1%float '
                + C.coqlist([query_coq(q, lp) for q in qs]) + ').\n')
        n += 1
    return txt, n


def close_f(a, b, rel, abs_=0.0):
    import math
    if a is None or b is None or math.isnan(a) or math.isnan(b):
        return False
    return abs(a - b) <= abs_ + rel * max(abs(a), abs(b))


# ----------------------------------------------------------------------------------------------
# generic driver: items = [{'spec':..., 'lc': bool, 'ops': [ {py: op, queries: [q...], combine: fn, tol: kind, scale: fn|None} ]}]
# ----------------------------------------------------------------------------------------------
def flatten(v):
    if isinstance(v, (list, tuple)):
        out = []
        for x in v:
            out += flatten(x)
        return out
    return [v]


def run_items(res, pid, name, items, what='statistic differs from the model value', impl_extra=None):
    """Evaluates every item on the implementation and in the Gallina model and compares.
    Returns list of (item, impl_result, model_values) for further oracles."""
    payloads = [{'cases': [{'spec': it['spec'], 'prelude': it.get('prelude', []), 'want_k_bc': not it.get('lc', True),
                            'ops': [o['py'] for o in it['ops']] + (impl_extra or [])}]} for it in items]
    outs = C.run_impl_parallel('numeric.py', payloads, timeout=1800)
    bodies, keep = [], []
    for i, (it, o) in enumerate(zip(items, outs)):
        r = o['results'][0]
        if 'error' in r:
            res.violation('valid configuration raised', {'spec': it['spec'], 'error': r['error']})
            continue
        end_default = it['spec'].get('end_time') if it['spec'].get('end_time') is not None else r['t_max']
        lc = it.get('lc', True)
        qs = []
        # cost control: the binary64 model multiplies ((k+1) * states)-dimensional matrices inside Coq;
        # operations whose Van Loan matrix would exceed the budget are evaluated on the implementation
        # only (their oracles still run), never silently compared with a wrong value
        budget = it.get('budget', 72 if lc else 96)
        kk = r['k_lc'] if lc else (r.get('k_bc') or r['k_lc'])
        for o_ in it['ops']:
            kmax = max([q.get('k', 0) for q in o_['queries']] + [0])
            o_['skip_model'] = (kmax + 1) * kk > budget
        # total cost of one item (evaluated on ONE core): sum over its DISTINCT queries of dim^3 * (epochs + times); the most
        # expensive operations are left to the implementation-side oracles until the estimate fits (about 8e-6 s per unit)
        sp_ = it['spec']
        E_ = len({t for d in (sp_.get('pop_sizes') or {}).values() for t in (d if isinstance(d, dict) else {})} |
                 {t for d in (sp_.get('migration_rates') or {}).values() for t in (d if isinstance(d, dict) else {})}) + len(sp_.get('events') or [])
        cap = it.get('cost_cap', 6e6 if res.tier == 'quick' else 6e7)

        def qcost(q):
            return ((q.get('k', 0) + 1) * kk) ** 3 * (E_ + 1 + len(q.get('ts') or []))

        def total():
            seen = set()
            tot = 0
            for o_ in it['ops']:
                if o_.get('skip_model'):
                    continue
                for q in o_['queries']:
                    key_ = json.dumps(q, sort_keys=True, default=str)
                    if key_ not in seen:
                        seen.add(key_)
                        tot += qcost(q)
            return tot
        while total() > cap:
            cands = [o_ for o_ in it['ops'] if not o_.get('skip_model') and max([q.get('k', 0) for q in o_['queries']] + [0]) > 1]
            if not cands:
                break
            max(cands, key=lambda o_: sum(qcost(q) for q in o_['queries']))['skip_model'] = True
        uniq = {}      # identical model queries of one item are evaluated once inside Coq and shared between its operations
        for o_ in it['ops']:
            o_['_idx'] = []
            if o_.get('skip_model'):
                continue
            for q in o_['queries']:
                q = dict(q)
                if q['kind'] == 'moment':
                    q.setdefault('end', end_default)
                    if it['spec'].get('start_time') and 'start' not in q:
                        q['start'] = it['spec']['start_time']
                key_ = json.dumps(q, sort_keys=True, default=str)
                if key_ not in uniq:
                    uniq[key_] = len(qs)
                    qs.append(q)
                o_['_idx'].append(uniq[key_])
        txt, _ = case_text(i, it['spec'], r, qs if lc else [], [] if lc else qs)
        bodies.append(txt)
        keep.append((it, r, qs))
    couts = C.run_coq_cases(pid, name, HEADER, bodies, timeout=2400)
    results = []
    for (it, r, qs), (rc, vals, raw) in zip(keep, couts):
        if not qs:
            mv = []
        elif rc != 0 or len(vals) != 1:
            res.violation('model evaluation failed', {'spec': it['spec'], 'coq_output': raw[-1500:]}, concrete=False)
            continue
        else:
            mv = C.parse_term(vals[0])
        warned = any(k in ('horizon', 'numerical', 'nan') for k in r['warnings'])
        pos = 0
        mvals = []
        for j, o_ in enumerate(it['ops']):
            iv, err = r['values'][j], r['errors'][j]
            if o_.get('skip_model'):
                mvals.append(None)
                res.stream(name, skipped_model_too_large=1)
                if err:
                    res.violation('statistic raised on a valid configuration', {'spec': it['spec'], 'op': o_['py'], 'error': err})
                continue
            mq = [mv[i_] for i_ in o_['_idx']]
            key = (gen.spec_key(it['spec']), j)
            if err:
                res.violation('statistic raised on a valid configuration', {'spec': it['spec'], 'op': o_['py'], 'error': err})
                mvals.append(None)
                continue
            if any(len(x) == 0 for x in mq):
                res.violation('model returned no value', {'spec': it['spec'], 'op': o_['py']}, concrete=False)
                mvals.append(None)
                continue
            exp = o_['combine'](mq)
            mvals.append(exp)
            fe, fi = flatten(exp), flatten(iv)
            res.count(key, nontrivial=any(x != 0 for x in fi))
            if len(fe) != len(fi):
                res.violation('result has the wrong shape', {'spec': it['spec'], 'op': o_['py'], 'expected_len': len(fe), 'observed_len': len(fi)})
                continue
            tol = o_.get('tol', 'mean')
            scale = o_['scale'](mq) if o_.get('scale') else None
            for idx_, (a, b) in enumerate(zip(fe, fi)):
                if tol == 'mean':
                    ok = close_f(a, b, 1e-7, 1e-12)
                elif tol == 'prob':
                    ok = close_f(a, b, 0.0, 1e-9)
                elif tol == 'corr':
                    ok = close_f(a, b, 1e-6, 1e-6)
                else:
                    s = max(abs(a), abs(b), scale or 0.0)
                    ok = abs(a - b) <= 1e-6 * s + 1e-12
                if not ok and not (warned and it['spec'].get('end_time') is None and o_.get('uses_horizon', True)):
                    res.violation(what, {'spec': it['spec'], 'op': o_['py'], 'index': idx_, 'expected': a, 'observed': b,
                                         't_max': r['t_max'], 'warnings': r['warnings']})
                    break
        results.append((it, r, mvals))
        res.sample({'spec': it['spec'], 'op': it['ops'][0]['py'], 'observed': r['values'][0], 'model': mvals[0] if mvals else None}, cap=3)
    res.stream(name, configurations=len(keep))
    return results


def one(mq):
    return mq[0][0]
