#!/bin/sh
# Build the Coq development from clean (full .vo build), offline.
set -e
cd "$(dirname "$0")/coq"
rm -f Makefile Makefile.conf .Makefile.d
find theories -name '*.vo' -o -name '*.vok' -o -name '*.vos' -o -name '*.glob' -o -name '.*.aux' | xargs rm -f
coq_makefile -f _CoqProject -o Makefile > /dev/null
timeout 7200 make -j16 > build.log 2>&1 || { tail -50 build.log; exit 1; }
echo "coq build ok: $(find theories -name '*.vo' | wc -l) files"
