#!/bin/sh
# run every check (tier $1, default quick) sequentially; prints rc and wall time per property
tier=${1:-quick}
cd /verif
for i in 01 02 03 04 05 06 07 08 09 10 11 12 13 14 15 16 17 18 19 20; do
  s=$(date +%s)
  ./check C$i --tier $tier > /tmp/all_C$i.log 2>&1
  rc=$?
  e=$(date +%s)
  echo "C$i rc=$rc $((e-s))s $(grep -c VIOLATION /tmp/all_C$i.log) violations, $(grep -c KNOWN-FINDING /tmp/all_C$i.log) known"
done
