#!/venv/bin/python
"""sfs2coq - fail-closed PIN of the assembly of the site-frequency-spectrum statistics of phasegen/distributions.py, with a Gallina
reading over an abstract moment function:

    SFSDistribution.moment / _moment     (one PhaseTypeDistribution.moment per bin with rewards CombinedReward([r, sfs_reward(i)]); the
                                          layout [0] + moments + [0] * (n - len(moments)))
    SFSDistribution.cov                  (ordered second moments M[i, j] for all pairs of bins, symmetrised, minus the outer product of
                                          the means)
    SFSDistribution.corr, get_cov        (cov / outer(std, std) with NaN -> 0 on a NEW array; the centred second moment of two bins)
    SFSDistribution.accumulate / get_accumulation (one PhaseTypeDistribution.accumulate per bin, center and permute handed on; zero rows
                                          at 0 and beyond the bins)
    UnfoldedSFSDistribution._get_indices, FoldedSFSDistribution._get_indices, their _get_sfs_reward

The bodies are compared statement by statement with the expected text (a rewrite - harmless or not - fails closed); the reading:
  * `PhaseTypeDistribution.moment(self, k=.., rewards=.., start_time=.., end_time=.., center=.., permute=..)` is the parameter
    pmoment k rewards center permute (start and end time are passed through unchanged); `CombinedReward([r, self._get_sfs_reward(i)])`
    is the parameter combined r i; `parallelize(func, data, ..)` is the ordered map of func over data;
  * `np.arange(1, n)` is seq 1 (n - 1), `np.arange(1, n // 2 + 1)` is seq 1 (n / 2);
  * `np.zeros((n + 1, n + 1))` followed by `sfs[i, j] = result` for the pairs in order is a matrix update; `np.outer`, `.T`, `+`, `/ 2`
    and `-` are the entrywise operations of gen/NpSfs.v.
"""
import argparse
import ast
import sys

SRC_DEFAULT = '/repo/phasegen/distributions.py'
OUT_DEFAULT = '/verif/coq/theories/gen/SfsGen.v'


class Unsupported(Exception):
    pass


def is_doc(s):
    if isinstance(s, ast.Pass):
        return True
    return isinstance(s, ast.Expr) and isinstance(s.value, ast.Constant) and isinstance(s.value.value, str)


def get_method(tree, cname, mname):
    for c in tree.body:
        if isinstance(c, ast.ClassDef) and c.name == cname:
            fs = [s for s in c.body if isinstance(s, ast.FunctionDef) and s.name == mname]
            if len(fs) == 1:
                return fs[0]
    raise Unsupported(f'{cname}.{mname}: expected exactly one definition')


def texts(f):
    return [' '.join(ast.unparse(s).split()) for s in f.body if not is_doc(s)]


def pin(tree, cname, mname, want, deco=None, args=None):
    f = get_method(tree, cname, mname)
    if args is not None and [a.arg for a in f.args.args] != args:
        raise Unsupported(f'{cname}.{mname}: unexpected parameters {[a.arg for a in f.args.args]}')
    got = texts(f)
    want = [' '.join(w.split()) for w in want]
    if got != want:
        raise Unsupported(f'{cname}.{mname}: unexpected body:\n' + '\n'.join('  ' + repr(x) for x in got))
    if deco is not None and sorted(ast.unparse(d) for d in f.decorator_list) != deco:
        raise Unsupported(f'{cname}.{mname}: unexpected decorators')


TEXT = '''(* GENERATED FILE - DO NOT EDIT.  Regenerated on every run of the checks that depend on the assembly of the SFS statistics by
   /verif/translate/sfs2coq.py (Python `ast`, fail-closed PIN of the method bodies) from phasegen/distributions.py.
   The theorems about it are in proofs/GenSfsEquiv.v.  Reading of the source: see the docstring of the translator. *)
From Coq Require Import ZArith QArith List Arith Bool.
From PG Require Import base.Ops model.CoalModels model.Matrix gen.NpSfs.
Import ListNotations.

Section Gen.
  Context {T : Type} (OP : Ops T).
  Variable Rw : Type.
  Variable combined : Rw -> nat -> Rw.                          (* CombinedReward([r, self._get_sfs_reward(i)]) *)
  Variable pmoment : nat -> list Rw -> bool -> bool -> T.       (* PhaseTypeDistribution.moment(self, k, rewards, <times>, center, permute) *)
  Variable self_reward : Rw.

  (* UnfoldedSFSDistribution._get_indices / FoldedSFSDistribution._get_indices *)
  Definition UnfoldedSFSDistribution_get_indices (n : nat) : list nat := seq 1 (n - 1).
  Definition FoldedSFSDistribution_get_indices (n : nat) : list nat := seq 1 (n / 2).

  (* SFSDistribution._moment *)
  Definition SFSDistribution__moment (k i : nat) (rewards : list Rw) (center permute : bool) : T :=
    pmoment k (map (fun r => combined r i) rewards) center permute.

  (* SFSDistribution.moment: rewards default to k copies of self.reward *)
  Definition SFSDistribution_moment (n : nat) (indices : list nat) (k : nat) (rewards : option (list Rw)) (center permute : bool) : list T :=
    let rewards := match rewards with None => repeat self_reward k | Some r => r end in
    let moments := map (fun i => SFSDistribution__moment k i rewards center permute) indices in
    [o0 OP] ++ moments ++ repeat (o0 OP) (n - length moments).

  (* SFSDistribution.cov; mean = self.mean.data *)
  Definition SFSDistribution_cov (n : nat) (indices : list nat) (mean : list T) : list (list T) :=
    let idx := list_prod indices indices in
    let sfs_results := map (fun x => pmoment 2 [combined self_reward (fst x); combined self_reward (snd x)] false false) idx in
    let sfs := fold_left (fun m ir => mset2 m (fst (fst ir)) (snd (fst ir)) (snd ir)) (combine idx sfs_results) (mzero OP (n + 1) (n + 1)) in
    let m2 := outer OP mean mean in
    msub2 OP (mhalf OP (madd OP sfs (mtrans OP (n + 1) sfs))) m2.

  (* SFSDistribution.get_cov *)
  Definition SFSDistribution_get_cov (n i j : nat) : T :=
    if (Nat.eqb i 0 || Nat.eqb i n || Nat.eqb j 0 || Nat.eqb j n)%bool then o0 OP
    else pmoment 2 [combined self_reward i; combined self_reward j] true true.

  Variable paccumulate : nat -> list Rw -> bool -> bool -> list T.   (* super().accumulate(k, end_times, rewards, center, permute), end_times fixed *)

  (* SFSDistribution.get_accumulation: rewards default to k copies of self.reward *)
  Definition SFSDistribution_get_accumulation (k i : nat) (rewards : option (list Rw)) (center permute : bool) : list T :=
    let rewards := match rewards with None => repeat self_reward k | Some r => r end in
    paccumulate k (map (fun r => combined r i) rewards) center permute.

  (* SFSDistribution.accumulate: one row per entry of the spectrum, nt = len(end_times); the argument list unpacked into get_accumulation
     is [k, i, end_times, rewards, center, permute] in the order of its parameters *)
  Definition SFSDistribution_accumulate (n : nat) (indices : list nat) (nt k : nat) (rewards : option (list Rw)) (center permute : bool) : list (list T) :=
    let accumulation := map (fun i => SFSDistribution_get_accumulation k i rewards center permute) indices in
    [repeat (o0 OP) nt] ++ accumulation ++ repeat (repeat (o0 OP) nt) (n - length indices).
End Gen.
'''


def translate(src_text):
    tree = ast.parse(src_text)
    pin(tree, 'SFSDistribution', 'moment',
        ['if rewards is None: rewards = (self.reward,) * k',
         "moments = parallelize(func=lambda x: self._moment(*x), data=[[k, i, rewards, start_time, end_time, center, permute] for i in self._get_indices()], "
         "desc=f'Calculating {k}-moments', pbar=self.pbar, parallelize=self.parallelize)",
         'return SFS([0] + list(moments) + [0] * (self.lineage_config.n - len(moments)))'], deco=['_make_hashable', 'cache'])
    pin(tree, 'SFSDistribution', '_moment',
        ['return PhaseTypeDistribution.moment(self, k=k, rewards=tuple([CombinedReward([r, self._get_sfs_reward(i)]) for r in rewards]), '
         'start_time=start_time, end_time=end_time, center=center, permute=permute)'])
    pin(tree, 'SFSDistribution', 'cov',
        ['indices = [(i, j) for i in self._get_indices() for j in self._get_indices()]',
         "sfs_results = parallelize(func=lambda x: PhaseTypeDistribution.moment(self, k=2, permute=False, center=False, "
         "rewards=(CombinedReward([self.reward, self._get_sfs_reward(x[0])]), CombinedReward([self.reward, self._get_sfs_reward(x[1])]))), "
         "data=indices, desc='Calculating covariance', pbar=self.pbar, parallelize=self.parallelize)",
         'sfs = np.zeros((self.lineage_config.n + 1, self.lineage_config.n + 1))',
         'for (i, j), result in zip(indices, sfs_results): sfs[i, j] = result',
         'm2 = np.outer(self.mean.data, self.mean.data)', 'cov = (sfs + sfs.T) / 2 - m2', 'return SFS2(cov)'], deco=['cached_property'])
    pin(tree, 'SFSDistribution', 'corr',
        ['std = np.sqrt(self.var.data)', 'sfs = SFS2(self.cov.data / np.outer(std, std))', 'sfs.data[np.isnan(sfs.data)] = 0', 'return sfs'],
        deco=['cached_property'])
    pin(tree, 'SFSDistribution', 'get_cov',
        ['if i in (0, self.lineage_config.n) or j in (0, self.lineage_config.n): return 0',
         'return super().moment(k=2, rewards=(CombinedReward([self.reward, self._get_sfs_reward(i)]), '
         'CombinedReward([self.reward, self._get_sfs_reward(j)])), center=True)'])
    pin(tree, 'SFSDistribution', 'accumulate',
        ['k = int(k)', 'indices = self._get_indices()', 'end_times = np.array(list(end_times))',
         "accumulation = parallelize(func=lambda x: self.get_accumulation(*x), data=[[k, i, end_times, rewards, center, permute] for i in indices], "
         "desc=f'Calculating accumulation of {k}-moments', pbar=self.pbar, parallelize=self.parallelize)",
         'return np.concatenate([np.zeros((1, len(end_times))), accumulation, np.zeros((self.lineage_config.n - len(indices), len(end_times)))])'],
        args=['self', 'k', 'end_times', 'rewards', 'center', 'permute'])
    pin(tree, 'SFSDistribution', 'get_accumulation',
        ['if rewards is None: rewards = [self.reward] * k',
         'return super().accumulate(k=k, end_times=end_times, rewards=tuple([CombinedReward([r, self._get_sfs_reward(i)]) for r in rewards]), '
         'center=center, permute=permute)'], args=['self', 'k', 'i', 'end_times', 'rewards', 'center', 'permute'])
    pin(tree, 'UnfoldedSFSDistribution', '_get_indices', ['return np.arange(1, self.lineage_config.n)'])
    pin(tree, 'FoldedSFSDistribution', '_get_indices', ['return np.arange(1, self.lineage_config.n // 2 + 1)'])
    pin(tree, 'UnfoldedSFSDistribution', '_get_sfs_reward', ['return UnfoldedSFSReward(i)'])
    pin(tree, 'FoldedSFSDistribution', '_get_sfs_reward', ['return FoldedSFSReward(i)'])
    return TEXT, ['SFSDistribution.moment', 'SFSDistribution._moment', 'SFSDistribution.cov', 'SFSDistribution.corr', 'SFSDistribution.get_cov',
                  'SFSDistribution.accumulate', 'SFSDistribution.get_accumulation', 'UnfoldedSFSDistribution._get_indices', 'FoldedSFSDistribution._get_indices']


def main():
    ap = argparse.ArgumentParser()
    ap.add_argument('--src', default=SRC_DEFAULT)
    ap.add_argument('--out', default=None)
    a = ap.parse_args()
    try:
        text, funcs = translate(open(a.src).read())
    except Unsupported as e:
        print('UNSUPPORTED:', e, file=sys.stderr)
        sys.exit(2)
    if a.out:
        open(a.out, 'w').write(text)
    else:
        sys.stdout.write(text)


if __name__ == '__main__':
    main()
