#!/venv/bin/python
"""loops2coq - fail-closed translator of the epoch-aware propagation loops of phasegen/distributions.py to Gallina:

    PhaseTypeDistribution._accumulate      (the Van Loan loop: sorted end times x epochs, scatter back)
    TreeHeightDistribution.cdf             (the same loop on the transition matrix)
    PhaseTypeDistribution._get_van_loan_matrix   (compared textually: it is `vanloan` of model/PhaseType.v)

Reading of the source (trusted base of this translator):
  * matrices are the list-of-rows matrices of model/Matrix.v; `A @ B` is mmul, `A * c` / `A / c` are mscale, `np.eye(n)` is mid,
    `expm` is the backend parameter; `a @ M @ e` (vector, matrix, vector) is the bilinear form dot a (M e) and `V * dt / lamb` is
    V scaled by dt / lamb (re-association of exact products: the model is over a field);
  * times are exact rationals; `epoch.end_time` is `Some t` or `None` (infinity); `u > epoch.end_time` is false for None;
    `epoch.end_time - u_prev` is read only where the comparison has just succeeded;
  * `enumerate(self.demography.epochs)` is the list of epochs (end time, generator), `x, epoch = next(epochs)` pops its head
    (StopIteration is not modelled: the last epoch is infinite, so the loop never pops an empty iterator); a `while` loop that
    pops the iterator is a structural recursion on the remaining epochs;
  * `self.state_space.update_epoch(e)` sets the epoch the state space holds; `self.state_space.S` is the generator of THAT epoch
    (so a missing update_epoch, or one applied to another epoch, changes the translation);
  * `self.state_space.k`, `.alpha`, `.e`, `self.reward._get(self.state_space)` and the reward matrices are parameters
    (n_states, alpha, ones, e, Rs); `self._get_regularization_factor` is an uninterpreted function regf of the generator;
  * `moments[i] = v` inside `for i, u in enumerate(t_sorted)` is a list update; np.sort / np.argsort(np.argsort(.., kind='stable'))
    are sortK / inv_perm (argsort ..) of base/Perm.v;
  * statements that only raise, log or check numerical stability are skipped (listed in the header of the generated file).
"""
import argparse
import ast
import sys

SRC_DEFAULT = '/repo/phasegen/distributions.py'
OUT_DEFAULT = '/verif/coq/theories/gen/LoopsGen.v'

VAN_LOAN = 'O = np.zeros_like(S)\nreturn np.block([[S if i == j else R[i] if i == j - 1 else O for j in range(k + 1)] for i in range(k + 1)])'
SKIP_CALLS = {'self._check_numerical_stability', 'self._logger.warning', 'self._logger.critical'}


class Unsupported(Exception):
    pass


def fail(node, msg):
    raise Unsupported(f'line {getattr(node, "lineno", "?")}: {msg}')


def is_doc(s):
    """statements without effect on the translated value: docstrings, `pass`, and pure logging calls (logger.* / self._logger.* /
    logging.* / warnings.warn whose arguments contain no call, walrus or yield)"""
    if isinstance(s, ast.Pass):
        return True
    if isinstance(s, ast.Expr) and isinstance(s.value, ast.Constant) and isinstance(s.value.value, str):
        return True
    if isinstance(s, ast.Expr) and isinstance(s.value, ast.Call):
        f, parts = s.value.func, []
        while isinstance(f, ast.Attribute):
            parts.append(f.attr)
            f = f.value
        if isinstance(f, ast.Name):
            parts.append(f.id)
            parts = parts[::-1]
            is_log = (parts[:2] == ['self', '_logger'] or parts[0] in ('logger', 'logging') or parts == ['warnings', 'warn']) and len(parts) >= 2
            if is_log and parts[-1] in ('debug', 'info', 'warning', 'error', 'critical', 'warn', 'log'):
                inner = [n for a in list(s.value.args) + [k.value for k in s.value.keywords] for n in ast.walk(a)]
                if not any(isinstance(n, (ast.Call, ast.NamedExpr, ast.Yield, ast.YieldFrom, ast.Await, ast.Lambda)) for n in inner):
                    return True
    return False


def chain(n):
    out = []
    while isinstance(n, ast.Attribute):
        out.append(n.attr)
        n = n.value
    if isinstance(n, ast.Name):
        out.append(n.id)
        return '.'.join(out[::-1])
    return None


class Fn:
    """types: Q (time), T (field scalar), nat, mat, vec, qlist, tlist, iter (epoch iterator), epoch, Rs, perm"""

    def __init__(self, kind):
        self.kind = kind            # 'accumulate' | 'cdf'
        self.n = 0
        self.skipped = []
        self.reassigned = set()

    def fresh(self, b):
        self.n += 1
        return f'{b}_{self.n}'

    # ------------------------------------------------------------------ expressions
    def expr(self, n, env):
        if isinstance(n, ast.Constant):
            if isinstance(n.value, int) and not isinstance(n.value, bool) and n.value >= 0:
                return (str(n.value), 'lit')
            fail(n, f'constant {n.value!r}')
        if isinstance(n, ast.Name):
            if n.id in env:
                return env[n.id]
            fail(n, f'unknown name {n.id}')
        if isinstance(n, ast.Attribute):
            c = chain(n)
            if c == 'self.state_space.S':
                return (f'(snd {env["__ss__"][0]})', 'mat')
            if c == 'self.state_space.k':
                return ('n_states', 'nat')
            if c == 'self.state_space.alpha':
                return ('alpha', 'vec')
            if c == 'self.state_space.e':
                return ('(ones OP n_states)', 'vec')
            if isinstance(n.value, ast.Name) and n.value.id in env and env[n.value.id][1] == 'epoch' and n.attr == 'end_time':
                return (f'(fst {env[n.value.id][0]})', 'endtime')
            fail(n, 'attribute ' + ast.unparse(n))
        if isinstance(n, ast.BinOp):
            if isinstance(n.op, ast.MatMult):
                # a @ M @ e : bilinear form
                if isinstance(n.left, ast.BinOp) and isinstance(n.left.op, ast.MatMult):
                    a, m, e = self.expr(n.left.left, env), self.expr(n.left.right, env), self.expr(n.right, env)
                    if (a[1], m[1], e[1]) == ('vec', 'mat', 'vec'):
                        return (f'(dot OP {a[0]} (mvec OP {m[0]} {e[0]}))', 'T')
                l, r = self.expr(n.left, env), self.expr(n.right, env)
                if l[1] == r[1] == 'mat':
                    return (f'(mmul OP {l[0]} {r[0]})', 'mat')
                fail(n, f'@ on {l[1]}, {r[1]}')
            l, r = self.expr(n.left, env), self.expr(n.right, env)
            if isinstance(n.op, ast.Sub):
                if l[1] in ('Q', 'endtime') and r[1] in ('Q', 'lit'):
                    lq = f'(end_or0 {l[0]})' if l[1] == 'endtime' else l[0]
                    rq = f'(inject_Z {r[0]})' if r[1] == 'lit' else r[0]
                    return (f'({lq} - {rq})%Q', 'Q')
                if l == ('1', 'lit') and r[1] == 'T':
                    return (f'(osub OP (o1 OP) {r[0]})', 'T')
            if isinstance(n.op, ast.Add) and l[1] in ('nat', 'lit') and r[1] in ('nat', 'lit'):
                return (f'({l[0]} + {r[0]})', 'nat')
            if isinstance(n.op, ast.Mult):
                if l[1] in ('nat', 'lit') and r[1] in ('nat', 'lit'):
                    return (f'({l[0]} * {r[0]})', 'nat')
                if l[1] == 'mat' and r[1] == 'T':
                    return (f'(mscale OP {r[0]} {l[0]})', 'mat')
                if l[1] == 'mat' and r[1] == 'Q':
                    return (f'(mscale OP (oofQ OP {r[0]}) {l[0]})', 'mat')
                if l[1] == r[1] == 'T':
                    return (f'(omul OP {l[0]} {r[0]})', 'T')
                if l[1] == 'T' and r[1] == 'vec':
                    return (f'(vscale OP {l[0]} {r[0]})', 'vec')
            if isinstance(n.op, ast.Div):
                # (V * dt) / lamb  ->  V scaled by dt / lamb
                if (isinstance(n.left, ast.BinOp) and isinstance(n.left.op, ast.Mult) and r[1] == 'T'):
                    a, b = self.expr(n.left.left, env), self.expr(n.left.right, env)
                    if a[1] == 'mat' and b[1] == 'Q':
                        return (f'(mscale OP (odiv OP (oofQ OP {b[0]}) {r[0]}) {a[0]})', 'mat')
            if isinstance(n.op, ast.Pow) and l[1] == 'T' and r[1] in ('nat', 'lit'):
                return (f'(opow OP {l[0]} {r[0]})', 'T')
            fail(n, f'operator {type(n.op).__name__} on {l[1]}, {r[1]}')
        if isinstance(n, ast.UnaryOp) and isinstance(n.op, ast.USub):
            v = self.expr(n.operand, env)
            if v[1] in ('nat', 'lit'):
                return (v[0], 'neg')
        if isinstance(n, ast.Subscript):
            b = self.expr(n.value, env)
            sl = n.slice
            if b[1] == 'mat' and isinstance(sl, ast.Tuple) and len(sl.elts) == 2 and all(isinstance(e, ast.Slice) for e in sl.elts):
                r_, c_ = sl.elts
                if r_.lower is None and r_.upper is not None and c_.upper is None and c_.lower is not None and not r_.step and not c_.step:
                    nr = self.expr(r_.upper, env)
                    nc = self.expr(c_.lower, env)
                    if nr[1] == 'nat' and nc[1] == 'neg':
                        if 'Qdim' not in env.get('__dims__', {}).get(ast.unparse(n.value), {}):
                            pass
                        tot = env['__dims__'].get(n.value.id) if isinstance(n.value, ast.Name) else None
                        if tot is None:
                            fail(n, 'matrix of unknown size sliced from the end')
                        return (f'(sub_block {b[0]} 0 {nr[0]} ({tot} - {nc[0]}) {nc[0]})', 'mat')
            fail(n, 'subscript ' + ast.unparse(n))
        if isinstance(n, ast.Call):
            c = chain(n.func)
            kw = {k.arg: k.value for k in n.keywords}
            if c == 'np.eye' and len(n.args) == 1 and not kw:
                a = self.expr(n.args[0], env)
                if a[1] == 'nat':
                    return (f'(mid OP {a[0]})', 'mat', a[0])
            if c == 'expm' and len(n.args) == 1 and not kw:
                a = self.expr(n.args[0], env)
                if a[1] == 'mat':
                    return (f'(expm {a[0]})', 'mat')
            if c == 'factorial' and len(n.args) == 1 and not kw:
                a = self.expr(n.args[0], env)
                if a[1] == 'nat':
                    return (f'(oofZ OP (fact_Z {a[0]}))', 'T')
            if c == 'np.sort' and len(n.args) == 1 and not kw:
                a = self.expr(n.args[0], env)
                if a[1] == 'qlist':
                    return (f'(sortK Qleb {a[0]})', 'qlist')
            if isinstance(n.func, ast.Attribute) and n.func.attr == 'astype' and len(n.args) == 1 and ast.unparse(n.args[0]) == 'float':
                a = self.expr(n.func.value, env)
                if a[1] == 'qlist':
                    return a
            if c in ('np.array', 'np.asarray') and len(n.args) == 1 and (not kw or (set(kw) == {'dtype'} and ast.unparse(kw['dtype']) == 'float')):
                a = self.expr(n.args[0], env)
                if a[1] == 'qlist':
                    return a
            if c == 'np.zeros_like' and len(n.args) == 1 and (not kw or (set(kw) == {'dtype'} and ast.unparse(kw['dtype']) == 'float')):
                a = self.expr(n.args[0], env)
                if a[1] == 'qlist':
                    return (f'(repeat (o0 OP) (length {a[0]}))', 'tlist')
            if c == 'enumerate' and len(n.args) == 1 and not kw:
                if chain(n.args[0]) == 'self.demography.epochs':
                    return ('epochs0', 'iter')
                a = self.expr(n.args[0], env)
                if a[1] == 'qlist':
                    return (f'(combine (seq 0 (length {a[0]})) {a[0]})', 'enumq')
            if c == 'self._get_regularization_factor' and len(n.args) == 1 and not kw:
                a = self.expr(n.args[0], env)
                if a[1] == 'mat':
                    return (f'(regf {a[0]})', 'T')
            if c == 'self._get_van_loan_matrix' and not n.args and set(kw) == {'S', 'R', 'k'}:
                s_, r_, k_ = self.expr(kw['S'], env), self.expr(kw['R'], env), self.expr(kw['k'], env)
                if (s_[1], r_[1], k_[1]) == ('mat', 'Rs', 'nat'):
                    return (f'(vanloan OP {s_[0]} {r_[0]} {k_[0]})', 'mat')
            if c == 'self.reward._get' and len(n.args) == 1 and chain(n.args[0]) == 'self.state_space' and not kw:
                return ('e', 'vec')
            if c == 'np.argsort' and len(n.args) == 1 and isinstance(n.args[0], ast.Call) and chain(n.args[0].func) == 'np.argsort':
                inner = n.args[0]
                ikw = {k.arg: k.value for k in inner.keywords}
                if (not kw and len(inner.args) == 1 and set(ikw) == {'kind'} and isinstance(ikw['kind'], ast.Constant)
                        and ikw['kind'].value == 'stable'):
                    a = self.expr(inner.args[0], env)
                    if a[1] == 'qlist':
                        return (f'(inv_perm (argsort Qleb {a[0]}))', 'perm')
            fail(n, 'call ' + ast.unparse(n)[:100])
        if isinstance(n, ast.ListComp):
            if ast.unparse(n) == '[np.diag(r._get(state_space=self.state_space)) for r in rewards]' and env.get('rewards', (None, None))[1] == 'rewards':
                return ('Rs', 'Rs')
        fail(n, f'expression {ast.unparse(n)[:80]}')

    def cond(self, n, env):
        if isinstance(n, ast.Compare) and len(n.ops) == 1 and isinstance(n.ops[0], ast.Gt):
            l, r = self.expr(n.left, env), self.expr(n.comparators[0], env)
            if l[1] == 'Q' and r[1] == 'endtime':
                return f'(gt_end {l[0]} {r[0]})'
        fail(n, 'condition ' + ast.unparse(n))

    # ------------------------------------------------------------------ statements (CPS)
    def assigned(self, stmts):
        out = []
        for s in stmts:
            if isinstance(s, (ast.Assign, ast.AugAssign, ast.AnnAssign)):
                tgts = s.targets if isinstance(s, ast.Assign) else [s.target]
                for t in tgts:
                    if isinstance(t, ast.Subscript):
                        t = t.value
                    if isinstance(t, ast.Name):
                        out.append(t.id)
                    elif isinstance(t, ast.Tuple):
                        out += [e.id for e in t.elts if isinstance(e, ast.Name)]
                if isinstance(s, ast.Assign) and isinstance(s.value, ast.Call) and chain(s.value.func) == 'next':
                    out.append(s.value.args[0].id)
            elif isinstance(s, ast.Expr) and isinstance(s.value, ast.Call) and chain(s.value.func) == 'self.state_space.update_epoch':
                out.append('__ss__')
            elif isinstance(s, (ast.While, ast.For)):
                out += self.assigned(s.body)
            elif isinstance(s, ast.If):
                out += self.assigned(s.body) + self.assigned(s.orelse)
        seen = []
        for x in out:
            if x not in seen:
                seen.append(x)
        return seen

    def tup(self, names, env):
        return '(' + ', '.join(env[m][0] for m in names) + ')' if len(names) > 1 else env[names[0]][0]

    def pat(self, names, vs):
        return "'(" + ', '.join(vs[m] for m in names) + ')' if len(names) > 1 else vs[names[0]]

    def block(self, stmts, env, k):
        stmts = [s for s in stmts if not is_doc(s)]
        if not stmts:
            return k(env)
        s, rest = stmts[0], stmts[1:]
        nxt = lambda e: self.block(rest, e, k)
        # ---- skipped statements
        if isinstance(s, ast.If) and not s.orelse and len(s.body) == 1 and isinstance(s.body[0], ast.Raise):
            self.skipped.append(f'line {s.lineno}: if {ast.unparse(s.test)}: raise')
            return nxt(env)
        if isinstance(s, ast.If) and not s.orelse and len(s.body) == 1 and isinstance(s.body[0], ast.Expr) and \
                isinstance(s.body[0].value, ast.Call) and chain(s.body[0].value.func) in SKIP_CALLS:
            self.skipped.append(f'line {s.lineno}: if {ast.unparse(s.test)}: log')
            return nxt(env)
        if isinstance(s, ast.Expr) and isinstance(s.value, ast.Call) and chain(s.value.func) in SKIP_CALLS:
            self.skipped.append(f'line {s.lineno}: {chain(s.value.func)}(...)')
            return nxt(env)
        txt = ast.unparse(s)
        if txt == 'if rewards is None:\n    rewards = (self.reward,) * k\nelif len(rewards) != k:\n    raise ValueError(f\'Number of rewards must be {k}.\')':
            self.skipped.append(f'line {s.lineno}: default rewards / reward count guard (the generated function takes the k reward vectors Rs)')
            return nxt(dict(env, rewards=('Rs', 'rewards')))
        if txt == 'if not isinstance(t, Iterable):\n    return self.cdf(np.array([t]))[0]':
            self.skipped.append(f'line {s.lineno}: scalar argument = one-element vector')
            return nxt(env)
        if isinstance(s, ast.Return):
            return self.expr(s.value, env)[0]
        if isinstance(s, ast.Expr) and isinstance(s.value, ast.Call) and chain(s.value.func) == 'self.state_space.update_epoch':
            a = self.expr(s.value.args[0], env)
            if a[1] != 'epoch' or len(s.value.args) != 1:
                fail(s, 'update_epoch must be applied to an epoch taken from the iterator')
            v = self.fresh('ss')
            return f'(let {v} := {a[0]} in\n{nxt(dict(env, __ss__=(v, "epoch")))})'
        if isinstance(s, ast.AnnAssign) and s.value is not None:
            s = ast.Assign(targets=[s.target], value=s.value, lineno=s.lineno)
        if isinstance(s, ast.Assign) and len(s.targets) == 1:
            t, val = s.targets[0], s.value
            # x, epoch = next(epochs)
            if isinstance(val, ast.Call) and chain(val.func) == 'next' and len(val.args) == 1 and isinstance(val.args[0], ast.Name):
                it = val.args[0].id
                if env.get(it, (None, None))[1] != 'iter' or not (isinstance(t, ast.Tuple) and len(t.elts) == 2 and all(isinstance(e, ast.Name) for e in t.elts)):
                    fail(s, 'next() must be `i, epoch = next(epochs)` on the epoch iterator')
                hd, tl = self.fresh(t.elts[1].id), self.fresh(it)
                env2 = dict(env, **{t.elts[1].id: (hd, 'epoch'), it: (tl, 'iter'), t.elts[0].id: ('tt', 'unit')})
                stop = env['__stop__'](env)
                return f'(match {env[it][0]} with\n | [] => {stop}\n | {hd} :: {tl} =>\n{nxt(env2)}\n end)'
            if isinstance(t, ast.Subscript) and isinstance(t.value, ast.Name) and isinstance(t.slice, ast.Name):
                l, i, v = self.expr(t.value, env), self.expr(t.slice, env), self.expr(val, env)
                if l[1] != 'tlist' or i[1] != 'nat' or v[1] != 'T':
                    fail(s, 'list update must be xs[i] = value')
                nv = self.fresh(t.value.id)
                return f'(let {nv} := upd_nth {l[0]} {i[0]} {v[0]} in\n{nxt(dict(env, **{t.value.id: (nv, "tlist")}))})'
            if not isinstance(t, ast.Name):
                fail(s, 'assignment target')
            # moments = moments[perm]
            if isinstance(val, ast.Subscript) and isinstance(val.value, ast.Name):
                l, p = self.expr(val.value, env), self.expr(val.slice, env)
                if l[1] == 'tlist' and p[1] == 'perm':
                    nv = self.fresh(t.id)
                    return f'(let {nv} := gather (o0 OP) {l[0]} {p[0]} in\n{nxt(dict(env, **{t.id: (nv, "tlist")}))})'
            e = self.expr(val, env)
            # a name initialised with an integer literal and reassigned later (`u_prev = 0 ... u_prev = u`) holds a time
            ty = {'lit': 'Q'}.get(e[1], e[1]) if t.id in self.reassigned else e[1]
            co = f'(inject_Z {e[0]})' if (e[1] == 'lit' and ty == 'Q') else e[0]
            if e[1] == 'endtime':         # a finite end time read as a number (only under a successful `u > end_time`)
                ty, co = 'Q', f'(end_or0 {e[0]})'
            nv = self.fresh(t.id)
            env2 = dict(env, **{t.id: (nv, ty)})
            if len(e) == 3:          # np.eye(n): remember the dimension
                env2['__dims__'] = dict(env.get('__dims__', {}), **{t.id: e[2]})
            return f'(let {nv} := {co} in\n{nxt(env2)})'
        if isinstance(s, ast.AugAssign) and isinstance(s.op, ast.MatMult) and isinstance(s.target, ast.Name):
            l, r = self.expr(s.target, env), self.expr(s.value, env)
            if l[1] != 'mat' or r[1] != 'mat':
                fail(s, '@= on non-matrices')
            nv = self.fresh(s.target.id)
            return f'(let {nv} := mmul OP {l[0]} {r[0]} in\n{nxt(dict(env, **{s.target.id: (nv, "mat")}))})'
        if isinstance(s, ast.While) and not s.orelse:
            return self.whileloop(s, env, nxt)
        if isinstance(s, ast.For) and not s.orelse:
            return self.forloop(s, env, nxt)
        fail(s, f'statement not supported: {txt[:80]}')

    def whileloop(self, s, env, nxt):
        carried = [m for m in self.assigned(s.body) if m in env]
        its = [m for m in carried if env[m][1] == 'iter']
        if len(its) != 1:
            fail(s, 'a while loop must pop exactly one iterator (its termination argument)')
        it = its[0]
        others = [m for m in carried if m != it]
        f = self.fresh('while')
        ps = {m: self.fresh(m) for m in carried}
        benv = dict(env, **{m: (ps[m], env[m][1]) for m in carried})
        allc = [it] + others
        benv['__stop__'] = lambda e: self.tup(allc, e)
        c = self.cond(s.test, benv)
        body = self.block(s.body, benv, lambda e: f'{f} ' + ' '.join(e[m][0] for m in allc))
        res = {m: self.fresh(m) for m in allc}
        env2 = dict(env, **{m: (res[m], env[m][1]) for m in allc})
        return (f'(let {self.pat(allc, res)} :=\n (fix {f} {ps[it]} ' + ' '.join(ps[m] for m in others) + f' {{struct {ps[it]}}} :=\n'
                f'  if {c} then\n{body}\n  else {self.tup(allc, benv)})\n {env[it][0]} ' + ' '.join(env[m][0] for m in others) + f' in\n{nxt(env2)})')

    def forloop(self, s, env, nxt):
        it_ = self.expr(s.iter, env)
        if it_[1] != 'enumq' or not (isinstance(s.target, ast.Tuple) and len(s.target.elts) == 2):
            fail(s, 'for loop must be `for i, u in enumerate(t_sorted)`')
        carried = [m for m in self.assigned(s.body) if m in env]
        acc = {m: self.fresh(m) for m in carried}
        i_, u_ = self.fresh(s.target.elts[0].id), self.fresh(s.target.elts[1].id)
        benv = dict(env, **{m: (acc[m], env[m][1]) for m in carried})
        benv[s.target.elts[0].id] = (i_, 'nat')
        benv[s.target.elts[1].id] = (u_, 'Q')
        benv['__stop__'] = lambda e: fail(s, 'next() directly inside a for loop')
        body = self.block(s.body, benv, lambda e: self.tup(carried, e))
        res = {m: self.fresh(m) for m in carried}
        env2 = dict(env, **{m: (res[m], env[m][1]) for m in carried})
        return (f'(let {self.pat(carried, res)} := fold_left (fun acc_ iu_ =>\n let {self.pat(carried, acc)} := acc_ in\n let \'({i_}, {u_}) := iu_ in\n'
                f'{body}) {it_[0]} {self.tup(carried, env)} in\n{nxt(env2)})')


HEADER = '''(* GENERATED FILE - DO NOT EDIT.  Regenerated on every run of the checks that depend on the propagation loops by
   /verif/translate/loops2coq.py (Python `ast`, fail-closed) from phasegen/distributions.py.
   The equivalence with the hand-written model (model/PhaseType.v over model/Loop.v) is proved in proofs/GenLoopsEquiv.v.

   Translated: PhaseTypeDistribution._accumulate, TreeHeightDistribution.cdf.
   Compared textually: PhaseTypeDistribution._get_van_loan_matrix (= vanloan of model/PhaseType.v).
   Skipped statements (guards that raise, logging, numerical-stability warnings, defaulting of arguments):
%s
   Reading of the source: see the docstring of the translator. *)
From Coq Require Import ZArith QArith List Arith Bool.
From PG Require Import base.Ops base.Perm model.CoalModels model.Matrix model.Loop model.PhaseType gen.NpLoops.
Import ListNotations.

Section Gen.
  Context {T : Type} (OP : Ops T).
  Variable expm : mat (T:=T) -> mat (T:=T).
  Variable regf : mat (T:=T) -> T.
'''


def multi_assigned(f):
    """names bound by more than one assignment statement of the function"""
    cnt = {}
    for n in ast.walk(f):
        if isinstance(n, (ast.Assign, ast.AugAssign, ast.AnnAssign)):
            for t in (n.targets if isinstance(n, ast.Assign) else [n.target]):
                for x in (t.elts if isinstance(t, ast.Tuple) else [t]):
                    if isinstance(x, ast.Name):
                        cnt[x.id] = cnt.get(x.id, 0) + 1
    return {k for k, v in cnt.items() if v > 1}


def get_method(tree, cname, mname):
    for c in tree.body:
        if isinstance(c, ast.ClassDef) and c.name == cname:
            fs = [s for s in c.body if isinstance(s, ast.FunctionDef) and s.name == mname]
            if len(fs) == 1:
                return fs[0]
    raise Unsupported(f'{cname}.{mname}: expected exactly one definition')


def translate(src_text):
    tree = ast.parse(src_text)
    imports = {}
    for s in tree.body:
        if isinstance(s, ast.ImportFrom):
            for a in s.names:
                imports[a.asname or a.name] = (s.module, a.name)
        elif isinstance(s, ast.Import):
            for a in s.names:
                imports[a.asname or a.name] = (a.name, None)
    for k, v in {'np': ('numpy', None), 'Backend': ('expm', 'Backend'), 'factorial': ('math', 'factorial')}.items():
        if imports.get(k) != v:
            raise Unsupported(f'name {k} is not bound to {v} (found {imports.get(k)})')
    binds = [ast.unparse(s) for s in tree.body if isinstance(s, ast.Assign) and any(isinstance(t, ast.Name) and t.id == 'expm' for t in s.targets)]
    if binds != ['expm = Backend.expm'] or 'expm' in imports:
        raise Unsupported(f'expm is not bound by `expm = Backend.expm` (found {binds})')
    vl = get_method(tree, 'PhaseTypeDistribution', '_get_van_loan_matrix')
    got = '\n'.join(ast.unparse(s) for s in vl.body if not is_doc(s))
    if got != VAN_LOAN or [a.arg for a in vl.args.args] != ['R', 'S', 'k']:
        fail(vl, '_get_van_loan_matrix has an unexpected body:\n' + got)
    out, skipped = [], []
    # ---- _accumulate
    f = get_method(tree, 'PhaseTypeDistribution', '_accumulate')
    if [a.arg for a in f.args.args] != ['self', 'k', 'end_times', 'rewards']:
        fail(f, '_accumulate: unexpected signature')
    fn = Fn('accumulate')
    fn.reassigned = multi_assigned(f)
    env = {'k': ('k', 'nat'), 'end_times': ('end_times', 'qlist'), 'rewards': ('rewards', 'rewards_arg'),
           '__stop__': lambda e: '[]'}
    term = fn.block(f.body, env, lambda e: fail(f, '_accumulate can fall off its end'))
    out.append('  (* PhaseTypeDistribution._accumulate *)\n  Definition PhaseTypeDistribution_accumulate (n_states k : nat) (epochs0 : list (epoch_t (T:=T))) (Rs : list (vec (T:=T)))\n'
               '             (alpha : vec (T:=T)) (end_times : list Q) : list T :=\n' + term + '.\n')
    skipped += ['     _accumulate ' + x for x in fn.skipped]
    # ---- cdf
    f = get_method(tree, 'TreeHeightDistribution', 'cdf')
    if [a.arg for a in f.args.args] != ['self', 't']:
        fail(f, 'cdf: unexpected signature')
    fn = Fn('cdf')
    fn.reassigned = multi_assigned(f)
    env = {'t': ('t', 'qlist'), '__stop__': lambda e: '[]'}
    term = fn.block(f.body, env, lambda e: fail(f, 'cdf can fall off its end'))
    out.append('  (* TreeHeightDistribution.cdf *)\n  Definition TreeHeightDistribution_cdf (n_states : nat) (epochs0 : list (epoch_t (T:=T))) (alpha e : vec (T:=T))\n'
               '             (t : list Q) : list T :=\n' + term + '.\n')
    skipped += ['     cdf ' + x for x in fn.skipped]
    text = HEADER % '\n'.join(skipped) + '\n' + '\n'.join(out) + 'End Gen.\n'
    return text, ['PhaseTypeDistribution._accumulate', 'TreeHeightDistribution.cdf', 'PhaseTypeDistribution._get_van_loan_matrix']


def main():
    ap = argparse.ArgumentParser()
    ap.add_argument('--src', default=SRC_DEFAULT)
    ap.add_argument('--out', default=None)
    a = ap.parse_args()
    try:
        text, funcs = translate(open(a.src).read())
    except Unsupported as e:
        print('UNSUPPORTED:', e, file=sys.stderr)
        sys.exit(2)
    if a.out:
        open(a.out, 'w').write(text)
    else:
        sys.stdout.write(text)


if __name__ == '__main__':
    main()
