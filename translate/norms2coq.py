#!/venv/bin/python
"""norms2coq - fail-closed PIN of the loss classes of phasegen/norms.py (the `loss` an Inference minimises is usually built from them),
with a Gallina reading over the reals for the three named norms:

    LNorm.__init__(p)            p = np.inf if np.isinf(p) else int(p)
    LNorm.compute(a, b)          np.linalg.norm(a - b, ord=self.p)
    L1Norm / L2Norm / LInfNorm   LNorm with p = 1 / 2 / np.inf
    PoissonLikelihood.compute    body pinned only (the Poisson log-likelihood is fastdfe's; not read)

Reading (ONE-dimensional operands of equal length - numpy rejects zero-dimensional operands when `ord` is given; numpy's `ord` for vectors): ord = 1 is the sum of
the absolute values, ord = 2 the square root of the sum of squares, ord = inf the largest absolute value; `a - b` is the entrywise
difference. For two-dimensional operands numpy's `ord` means a MATRIX norm (2 = spectral): outside the reading.
The bodies are compared statement by statement with the expected text (a rewrite - harmless or not - fails closed).
"""
import argparse
import ast
import sys

SRC_DEFAULT = '/repo/phasegen/norms.py'
OUT_DEFAULT = '/verif/coq/theories/gen/NormsGen.v'


class Unsupported(Exception):
    pass


def is_doc(s):
    if isinstance(s, ast.Pass):
        return True
    return isinstance(s, ast.Expr) and isinstance(s.value, ast.Constant) and isinstance(s.value.value, str)


def get_class(tree, cname):
    cs = [c for c in tree.body if isinstance(c, ast.ClassDef) and c.name == cname]
    if len(cs) != 1:
        raise Unsupported(f'{cname}: expected exactly one class')
    return cs[0]


def pin(tree, cname, mname, want, args, bases):
    c = get_class(tree, cname)
    if [ast.unparse(b) for b in c.bases] != bases:
        raise Unsupported(f'{cname}: unexpected bases {[ast.unparse(b) for b in c.bases]}')
    if mname is None:
        if [s for s in c.body if isinstance(s, ast.FunctionDef)]:
            raise Unsupported(f'{cname}: unexpected methods')
        return
    fs = [s for s in c.body if isinstance(s, ast.FunctionDef)]
    f = [s for s in fs if s.name == mname]
    if len(f) != 1:
        raise Unsupported(f'{cname}.{mname}: expected exactly one definition')
    f = f[0]
    got = [' '.join(ast.unparse(s).split()) for s in f.body if not is_doc(s)]
    want = [' '.join(w.split()) for w in want]
    if got != want:
        raise Unsupported(f'{cname}.{mname}: unexpected body:\n' + '\n'.join('  ' + repr(x) for x in got))
    if [a.arg for a in f.args.args] != args or f.decorator_list:
        raise Unsupported(f'{cname}.{mname}: unexpected parameters / decorators')


def only_methods(tree, cname, names):
    c = get_class(tree, cname)
    got = sorted(s.name for s in c.body if isinstance(s, ast.FunctionDef))
    if got != sorted(names):
        raise Unsupported(f'{cname}: unexpected methods {got}')


TEXT = '''(* GENERATED FILE - DO NOT EDIT.  Regenerated on every run of the checks that depend on the loss classes by
   /verif/translate/norms2coq.py (Python `ast`, fail-closed PIN of the method bodies) from phasegen/norms.py.
   The theorems about it are in proofs/GenNormsEquiv.v.  Reading of the source: see the docstring of the translator. *)
From Coq Require Import Reals List.
Import ListNotations.
Local Open Scope R_scope.

(* the order of an L-norm after LNorm.__init__: the three named classes *)
Inductive ord := Ord1 | Ord2 | OrdInf.
Definition L1Norm_p := Ord1.
Definition L2Norm_p := Ord2.
Definition LInfNorm_p := OrdInf.

(* np.linalg.norm(v, ord) of a one-dimensional v *)
Definition linalg_norm (v : list R) (p : ord) : R :=
  match p with
  | Ord1 => fold_right (fun x s => Rabs x + s) 0 v
  | Ord2 => sqrt (fold_right (fun x s => x * x + s) 0 v)
  | OrdInf => fold_right (fun x s => Rmax (Rabs x) s) 0 v
  end.

(* a - b, entrywise (equal lengths) *)
Definition vsub (a b : list R) : list R := map (fun xy => fst xy - snd xy) (combine a b).

(* LNorm.compute *)
Definition LNorm_compute (p : ord) (a b : list R) : R := linalg_norm (vsub a b) p.
'''


def translate(src_text):
    tree = ast.parse(src_text)
    only_methods(tree, 'LNorm', ['__init__', 'compute'])
    pin(tree, 'LNorm', '__init__', ['self.p: int = np.inf if np.isinf(p) else int(p)'], ['self', 'p'], ['Norm'])
    pin(tree, 'LNorm', 'compute', ['return np.linalg.norm(a - b, ord=self.p)'], ['self', 'a', 'b'], ['Norm'])
    for cname, p in (('L2Norm', '2'), ('L1Norm', '1'), ('LInfNorm', 'np.inf')):
        only_methods(tree, cname, ['__init__'])
        pin(tree, cname, '__init__', [f'super().__init__(p={p})'], ['self'], ['LNorm'])
    only_methods(tree, 'PoissonLikelihood', ['compute'])
    pin(tree, 'PoissonLikelihood', 'compute',
        ['return -PoissonLikelihoodFastDFE.log_poisson(mu=np.array(list(modelled)), k=np.array(list(observed))).sum()'],
        ['self', 'observed', 'modelled'], ['Likelihood'])
    return TEXT, ['LNorm.__init__', 'LNorm.compute', 'L1Norm', 'L2Norm', 'LInfNorm', 'PoissonLikelihood.compute']


def main():
    ap = argparse.ArgumentParser()
    ap.add_argument('--src', default=SRC_DEFAULT)
    ap.add_argument('--out', default=None)
    a = ap.parse_args()
    try:
        text, funcs = translate(open(a.src).read())
    except Unsupported as e:
        print('UNSUPPORTED:', e, file=sys.stderr)
        sys.exit(2)
    if a.out:
        open(a.out, 'w').write(text)
    else:
        sys.stdout.write(text)


if __name__ == '__main__':
    main()
