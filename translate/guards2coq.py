#!/venv/bin/python
"""guards2coq - fail-closed translator of the argument guards at the entry points of PhaseGen to Gallina verdict functions:

    distributions.py  TreeHeightDistribution.__init__ (start / end time), .cdf (negative times), .quantile (q, expansion factor),
                      PhaseTypeDistribution._accumulate (negative end times), .accumulate (number of rewards),
                      SFSDistribution.get_mutation_config (epochs, theta, length of the configuration - BEFORE any value is returned)
    state_space.py    BlockCountingStateSpace.__init__ (one locus only), Transition.recombine (negative rate)

Reading of the source (trusted base of this translator):
  * the PREFIX of a function body is read statement by statement: `if cond: raise E(..)` is a guard (ValueError -> ValueErr,
    NotImplementedError -> NotImpl); `if cond: return ..` ends the function with a value (Ok) when cond holds; plain assignments and
    the scalar-to-vector wrap of cdf are passed over; the first other statement ends the prefix (Ok).  The number of guards found
    must be the number expected for the site (a guard that was moved behind a statement that computes fails closed), and their
    ORDER is kept: a value returned before a later guard is visible in the generated function;
  * conditions: comparisons of an argument with an integer literal or with another argument (`x < 0`, `x <= 1`, `a < b`, `k != n`),
    `x is not None and <cond on x>` (an optional argument), `a or b`, `np.any(v < 0)` (some element negative),
    `self.demography.has_n_epochs(2)` (more than one epoch), `len(config) != n`, `locus_config is not None and locus_config.n > 1`,
    `self.state_space.locus_config.n == 1`; float arguments are exact rationals, counts are natural numbers / integers.
"""
import argparse
import ast
import os
import sys

SRC_DEFAULT = '/repo/phasegen'
OUT_DEFAULT = '/verif/coq/theories/gen/GuardsGen.v'


class Unsupported(Exception):
    pass


def fail(node, msg):
    raise Unsupported(f'line {getattr(node, "lineno", "?")}: {msg}')


def is_doc(s):
    if isinstance(s, ast.Pass):
        return True
    return isinstance(s, ast.Expr) and isinstance(s.value, ast.Constant) and isinstance(s.value.value, str)


def chain(n):
    out = []
    while isinstance(n, ast.Attribute):
        out.append(n.attr)
        n = n.value
    if isinstance(n, ast.Name):
        out.append(n.id)
        return '.'.join(out[::-1])
    return None


# site table: file, class, method, Gallina name, parameters (Gallina binder text), environment (python expression text -> (term, type)),
# number of guards expected
SITES = [
    ('distributions.py', 'TreeHeightDistribution', '__init__', 'TreeHeightDistribution_init_verdict',
     '(start_time : Q) (end_time : option Q)', {'start_time': ('start_time', 'Q'), 'end_time': ('end_time', 'optQ')}, 3),
    ('distributions.py', 'TreeHeightDistribution', 'cdf', 'TreeHeightDistribution_cdf_verdict',
     '(default_reward : bool) (t : list Q)', {'t': ('t', 'qlist'), 'isinstance(self.reward, TreeHeightReward)': ('default_reward', 'bool')}, 2),
    ('distributions.py', 'TreeHeightDistribution', 'quantile', 'TreeHeightDistribution_quantile_verdict',
     '(q expansion_factor : Q)', {'q': ('q', 'Q'), 'expansion_factor': ('expansion_factor', 'Q')}, 2),
    ('distributions.py', 'PhaseTypeDistribution', '_accumulate', 'PhaseTypeDistribution__accumulate_verdict',
     '(end_times : list Q)', {'end_times': ('end_times', 'qlist')}, 1),
    ('distributions.py', 'PhaseTypeDistribution', 'accumulate', 'PhaseTypeDistribution_accumulate_verdict',
     '(k n_rewards : nat)', {'k': ('k', 'nat'), 'len(rewards)': ('n_rewards', 'nat')}, 1),
    ('distributions.py', 'SFSDistribution', 'get_mutation_config', 'SFSDistribution_get_mutation_config_verdict',
     '(n_epochs len_config n : nat) (theta : Q)',
     {'theta': ('theta', 'Q'), 'len(config)': ('len_config', 'nat'), 'n': ('n', 'nat'),
      'self.demography.has_n_epochs(2)': ('(Nat.ltb 1 n_epochs)', 'bool')}, 3),
    ('state_space.py', 'BlockCountingStateSpace', '__init__', 'BlockCountingStateSpace_init_verdict',
     '(locus_config_n : option Z)', {'locus_config': ('locus_config_n', 'optZ'), 'locus_config.n': ('__inner__', 'Z')}, 1),
    ('state_space.py', 'Transition', 'recombine', 'Transition_recombine_verdict',
     '(n_loci : Z) (r : Q)', {'r': ('r', 'Q'), 'self.state_space.locus_config.n': ('n_loci', 'Z')}, 1),
]
PASS_OVER = {"if not isinstance(t, Iterable):\n    return self.cdf(np.array([t]))[0]"}


class Site:
    def __init__(self, env):
        self.env = env
        self.inner = None

    def atom(self, n):
        txt = ast.unparse(n)
        if txt in self.env:
            t, ty = self.env[txt]
            if t == '__inner__':
                if self.inner is None:
                    fail(n, f'{txt} read outside `is not None and ...`')
                return (self.inner, ty)
            return (t, ty)
        if isinstance(n, ast.Constant) and isinstance(n.value, int) and not isinstance(n.value, bool):
            return (str(n.value), 'lit')
        fail(n, 'operand ' + txt[:60])

    def cond(self, n):
        if isinstance(n, ast.BoolOp) and isinstance(n.op, ast.Or):
            return '(' + ' || '.join(self.cond(v) for v in n.values) + ')%bool'
        if isinstance(n, ast.BoolOp) and isinstance(n.op, ast.And) and len(n.values) == 2 and isinstance(n.values[0], ast.Compare) \
                and isinstance(n.values[0].ops[0], ast.IsNot) and ast.unparse(n.values[0].comparators[0]) == 'None':
            o = self.atom(n.values[0].left)
            if o[1] not in ('optQ', 'optZ'):
                fail(n, '`is not None` on a non-optional argument')
            v = 'x_'
            # inside: the optional argument stands for its value
            saved_env, saved_inner = self.env, self.inner
            name = ast.unparse(n.values[0].left)
            self.env = dict(self.env, **{name: (v, o[1][3:])}) if self.env.get(name, ('', ''))[0] != '__inner__' else self.env
            self.inner = v
            c = self.cond(n.values[1])
            self.env, self.inner = saved_env, saved_inner
            return f'(match {o[0]} with Some {v} => {c} | None => false end)'
        if isinstance(n, ast.UnaryOp) and isinstance(n.op, ast.Not):
            return f'(negb {self.cond(n.operand)})'
        if isinstance(n, ast.Call) and chain(n.func) == 'np.any' and len(n.args) == 1 and isinstance(n.args[0], ast.Compare):
            c = n.args[0]
            v = self.atom(c.left)
            if v[1] == 'qlist' and isinstance(c.ops[0], ast.Lt) and ast.unparse(c.comparators[0]) == '0':
                return f'(existsb lt0 {v[0]})'
            fail(n, 'np.any of an unsupported comparison')
        if isinstance(n, ast.Compare) and len(n.ops) == 1:
            l, r, op = self.atom(n.left), self.atom(n.comparators[0]), n.ops[0]
            tys = {l[1], r[1]} - {'lit'}
            if len(tys) != 1:
                fail(n, f'comparison of {l[1]} with {r[1]}')
            ty = tys.pop()
            lit = lambda x: x[0] if x[1] != 'lit' else {'Q': f'(inject_Z {x[0]})', 'Z': f'({x[0]})%Z', 'nat': x[0]}[ty]
            a, b = lit(l), lit(r)
            if ty == 'Q':
                if isinstance(op, ast.Lt):
                    return f'(lt0 ({a} - {b}))' if b != '(inject_Z 0)' else f'(lt0 {a})'
                if isinstance(op, ast.Gt):
                    return f'(lt0 ({b} - {a}))'
                if isinstance(op, ast.LtE):
                    return f'(le0 ({a} - {b}))' if b != '(inject_Z 0)' else f'(le0 {a})'
                if isinstance(op, ast.Eq):
                    return f'(Qeq_bool {a} {b})'
            if ty == 'Z':
                if isinstance(op, ast.Gt):
                    return f'({b} <? {a})%Z'
                if isinstance(op, ast.Lt):
                    return f'({a} <? {b})%Z'
                if isinstance(op, ast.Eq):
                    return f'({a} =? {b})%Z'
            if ty == 'nat':
                if isinstance(op, ast.NotEq):
                    return f'(negb (Nat.eqb {a} {b}))'
                if isinstance(op, ast.Eq):
                    return f'(Nat.eqb {a} {b})'
            fail(n, f'comparison {type(op).__name__} on {ty}')
        a = self.atom(n)
        if a[1] == 'bool':
            return a[0]
        fail(n, 'condition ' + ast.unparse(n)[:60])


def get_method(tree, cname, mname):
    for c in tree.body:
        if isinstance(c, ast.ClassDef) and c.name == cname:
            fs = [s for s in c.body if isinstance(s, ast.FunctionDef) and s.name == mname]
            if len(fs) == 1:
                return fs[0]
    raise Unsupported(f'{cname}.{mname}: expected exactly one definition')


def prefix(f, site):
    """[(condition, verdict)] of the prefix of f, in order"""
    out, guards = [], 0
    for s in f.body:
        if is_doc(s):
            continue
        if ast.unparse(s) in PASS_OVER:
            continue
        if isinstance(s, (ast.Assign, ast.AnnAssign)):
            continue
        if isinstance(s, ast.If) and not s.orelse and isinstance(s.test, ast.Compare) and isinstance(s.test.ops[0], ast.Is) and \
                ast.unparse(s.test.comparators[0]) == 'None' and all(isinstance(x, (ast.Assign, ast.AnnAssign)) for x in s.body):
            continue          # defaulting of an optional argument
        if isinstance(s, ast.If) and len(s.body) == 1 and isinstance(s.body[0], ast.Raise) and not s.orelse:
            exc = s.body[0].exc
            ename = chain(exc.func) if isinstance(exc, ast.Call) else chain(exc)
            v = {'ValueError': 'ValueErr', 'NotImplementedError': 'NotImpl'}.get(ename)
            if v is None:
                fail(s, f'guard raising {ename}')
            out.append((site.cond(s.test), v))
            guards += 1
            continue
        if isinstance(s, ast.If) and not s.orelse and s.body and isinstance([x for x in s.body if not is_doc(x)][-1], ast.Return) \
                and all(isinstance(x, (ast.Return, ast.If, ast.Expr, ast.Assign)) for x in s.body):
            # a value is returned when the condition holds (whatever the nested statements compute)
            if any(isinstance(x, ast.Raise) for y in s.body for x in ast.walk(y)):
                fail(s, 'a returning branch that may also raise')
            out.append((site.cond(s.test), 'Ok'))
            continue
        # guards nested in the else of a defaulting `if rewards is None: ... else: if len(rewards) != k: raise`
        break
    return out, guards


HEADER = '''(* GENERATED FILE - DO NOT EDIT.  Regenerated on every run of the checks that depend on the argument guards by
   /verif/translate/guards2coq.py (Python `ast`, fail-closed) from phasegen/distributions.py and phasegen/state_space.py.
   The equivalence with the hand-written model (outcome of model/Validate.v) is proved in proofs/GenGuardsEquiv.v.
   Reading of the source: see the docstring of the translator. *)
From Coq Require Import ZArith QArith List Arith Bool.
From PG Require Import model.Validate.
Import ListNotations.
Local Open Scope nat_scope.

'''


def translate(src_dir):
    d = src_dir if os.path.isdir(src_dir) else os.path.dirname(src_dir)
    trees = {}
    out, funcs = [], []
    for fn, cname, mname, gname, binders, env, nguards in SITES:
        if fn not in trees:
            trees[fn] = ast.parse(open(os.path.join(d, fn)).read())
        f = get_method(trees[fn], cname, mname)
        site = Site(env)
        pre, guards = prefix(f, site)
        if guards != nguards:
            fail(f, f'{cname}.{mname}: {guards} guard(s) found at the head of the function, {nguards} expected '
                    '(a guard was removed, or moved behind a statement that computes)')
        term = ''.join(f'if {c} then {v} else\n    ' for c, v in pre) + 'Ok'
        out.append(f'(* {cname}.{mname} ({fn}) *)\nDefinition {gname} {binders} : verdict :=\n    {term}.\n')
        funcs.append(f'{cname}.{mname}')
    return HEADER + '\n'.join(out), funcs


def main():
    ap = argparse.ArgumentParser()
    ap.add_argument('--src', default=SRC_DEFAULT)
    ap.add_argument('--out', default=None)
    a = ap.parse_args()
    try:
        text, funcs = translate(a.src)
    except Unsupported as e:
        print('UNSUPPORTED:', e, file=sys.stderr)
        sys.exit(2)
    if a.out:
        open(a.out, 'w').write(text)
    else:
        sys.stdout.write(text)


if __name__ == '__main__':
    main()
