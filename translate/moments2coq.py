#!/venv/bin/python
"""moments2coq - fail-closed translator of the moment assembly of phasegen/distributions.py to Gallina:

    PhaseTypeDistribution.accumulate   (defaults, centring by inclusion-exclusion over index subsets, averaging over the
                                        permutations of the rewards, hand-over to _accumulate)
    PhaseTypeDistribution.moment       (default start / end time, window [start, end] as a difference of two accumulations)

Reading of the source (trusted base of this translator):
  * `self._accumulate(k, tuple(end_times), rewards)` is the parameter `raw k end_times rewards` (its own translation is the
    `loops` tie: translate/loops2coq.py); rewards are values of an abstract type Rw; `self.reward` is the parameter self_reward,
    `self.tree_height.start_time` / `.t_max` are the parameters self_start_time / self_t_max;
  * an optional argument compared with None is an `option`; `k = int(k)` is the identity on a natural number;
  * values indexed by end time are lists over the field T: `a * b` of two of them is the elementwise product, `c * a` scales,
    `a / n` divides every entry by the integer n, `np.sum(l, axis=0)` adds the vectors of l one after the other starting from
    zeros (vsum), `np.prod(l, axis=0)` multiplies them starting from ones (the scalar 1.0 that NumPy returns for an empty list
    broadcasts like the all-ones vector); `np.ones_like(list(end_times))` is the all-ones vector of that length;
  * `x[i]` of a list is nth i (default: self_reward for rewards, the empty vector for lists of vectors, 0 for vectors - the source
    only indexes in range: k == len(rewards) is enforced by the guard that raises);
  * `range(n)` is seq 0 n, `itertools.combinations(range(k), i)` is subsets_of_size (seq 0 k) i (lexicographic, as itertools),
    `itertools.permutations(rewards)` is it_permutations of gen/NpMoments.v (itertools order: by position of the first element);
  * `a, b = v` of a vector is a match on a two-element list (any other length: the value 0 - not reachable, the vector has
    one entry per end time);
  * the method calls ITSELF: a recursive call is accepted only when it passes `center=False` or the literal `k=1`; in both cases
    the test `center and k > 1` of the callee is false, so the callee runs the NON-centring part of the same body, which is
    translated separately (PhaseTypeDistribution_accumulate_nc: the same statements with that test decided); anything else
    fails closed;
  * statements that only raise, and `float(x)`, are skipped / the identity (listed in the header of the generated file).
"""
import argparse
import ast
import sys

SRC_DEFAULT = '/repo/phasegen/distributions.py'
OUT_DEFAULT = '/verif/coq/theories/gen/MomentsGen.v'


class Unsupported(Exception):
    pass


def fail(node, msg):
    raise Unsupported(f'line {getattr(node, "lineno", "?")}: {msg}')


def is_doc(s):
    """statements without effect on the translated value: docstrings, `pass`, and pure logging calls"""
    if isinstance(s, ast.Pass):
        return True
    if isinstance(s, ast.Expr) and isinstance(s.value, ast.Constant) and isinstance(s.value.value, str):
        return True
    if isinstance(s, ast.Expr) and isinstance(s.value, ast.Call):
        f, parts = s.value.func, []
        while isinstance(f, ast.Attribute):
            parts.append(f.attr)
            f = f.value
        if isinstance(f, ast.Name):
            parts.append(f.id)
            parts = parts[::-1]
            is_log = (parts[:2] == ['self', '_logger'] or parts[0] in ('logger', 'logging') or parts == ['warnings', 'warn']) and len(parts) >= 2
            if is_log and parts[-1] in ('debug', 'info', 'warning', 'error', 'critical', 'warn', 'log'):
                inner = [n for a in list(s.value.args) + [k.value for k in s.value.keywords] for n in ast.walk(a)]
                if not any(isinstance(n, (ast.Call, ast.NamedExpr, ast.Yield, ast.YieldFrom, ast.Await, ast.Lambda)) for n in inner):
                    return True
    return False


def chain(n):
    out = []
    while isinstance(n, ast.Attribute):
        out.append(n.attr)
        n = n.value
    if isinstance(n, ast.Name):
        out.append(n.id)
        return '.'.join(out[::-1])
    return None


def only_raises(s):
    return isinstance(s, ast.If) and not s.orelse and len(s.body) == 1 and isinstance(s.body[0], ast.Raise)


class Fn:
    """types: nat, bool, Q, optQ, T, tvec (list T), tvecs, rw, rws, optrws, rwss, nats, natss, qlist"""

    def __init__(self, mode):
        self.mode = mode        # 'accumulate' | 'accumulate_nc' | 'moment'
        self.n = 0
        self.skipped = []

    def fresh(self, b):
        self.n += 1
        return f'{b}_{self.n}'

    def nt(self, env):
        if 'end_times' not in env:
            raise Unsupported('a vector-valued NumPy reduction outside a function with an end_times argument')
        return f'(length {env["end_times"][0]})'

    # ------------------------------------------------------------------ expressions
    def expr(self, n, env):
        if isinstance(n, ast.Constant):
            if isinstance(n.value, bool):
                return ('true' if n.value else 'false', 'bool')
            if isinstance(n.value, int) and n.value >= 0:
                return (str(n.value), 'nat')
            fail(n, f'constant {n.value!r}')
        if isinstance(n, ast.Name):
            if n.id in env:
                return env[n.id]
            fail(n, f'unknown name {n.id}')
        if isinstance(n, ast.Attribute):
            c = chain(n)
            if c == 'self.reward':
                return ('self_reward', 'rw')
            if c == 'self.tree_height.start_time':
                return ('self_start_time', 'Q')
            if c == 'self.tree_height.t_max':
                return ('self_t_max', 'Q')
            fail(n, 'attribute ' + ast.unparse(n))
        if isinstance(n, ast.Tuple) or isinstance(n, ast.List):
            es = [self.expr(e, env) for e in n.elts]
            if es and all(e[1] == 'rw' for e in es):
                return ('[' + '; '.join(e[0] for e in es) + ']', 'rws')
            if es and all(e[1] == 'Q' for e in es):
                return ('[' + '; '.join(e[0] for e in es) + ']', 'qlist')
            if es and all(e[1] == 'tvec' for e in es):
                return ('[' + '; '.join(e[0] for e in es) + ']', 'tvecs')
            if not es:
                return ('[]', 'empty')
            fail(n, 'list/tuple display of ' + ', '.join(e[1] for e in es))
        if isinstance(n, ast.Subscript):
            b, i = self.expr(n.value, env), self.expr(n.slice, env)
            if i[1] == 'nat':
                if b[1] == 'rws':
                    return (f'(nth {i[0]} {b[0]} self_reward)', 'rw')
                if b[1] == 'tvecs':
                    return (f'(nth {i[0]} {b[0]} [])', 'tvec')
                if b[1] == 'tvec':
                    return (f'(nth {i[0]} {b[0]} (o0 OP))', 'T')
            fail(n, f'subscript {b[1]}[{i[1]}]')
        if isinstance(n, ast.BoolOp) and isinstance(n.op, ast.And) and len(n.values) == 2:
            a, b = self.cond(n.values[0], env), self.cond(n.values[1], env)
            return (f'(andb {a} {b})', 'bool')
        if isinstance(n, ast.Compare):
            return (self.cond(n, env), 'bool')
        if isinstance(n, ast.BinOp):
            # (-1) ** e
            if isinstance(n.op, ast.Pow) and ast.unparse(n.left) in ('-1', '(-1)'):
                e = self.expr(n.right, env)
                if e[1] == 'nat':
                    return (f'(opow OP (oopp OP (o1 OP)) {e[0]})', 'T')
            l, r = self.expr(n.left, env), self.expr(n.right, env)
            if isinstance(n.op, ast.Mult):
                if l[1] == 'rws' and r[1] == 'nat' and isinstance(n.left, ast.List) and len(n.left.elts) == 1:
                    return (f'(repeat {self.expr(n.left.elts[0], env)[0]} {r[0]})', 'rws')
                if l[1] == 'T' and r[1] == 'tvec':
                    return (f'(vscale OP {l[0]} {r[0]})', 'tvec')
                if l[1] == r[1] == 'tvec':
                    return (f'(vmul OP {l[0]} {r[0]})', 'tvec')
            if isinstance(n.op, ast.Add) and l[1] == r[1] == 'nat':
                return (f'({l[0]} + {r[0]})', 'nat')
            if isinstance(n.op, ast.Sub):
                if l[1] == r[1] == 'nat':
                    return (f'({l[0]} - {r[0]})', 'nat')
                if l[1] == r[1] == 'T':
                    return (f'(osub OP {l[0]} {r[0]})', 'T')
            if isinstance(n.op, ast.Div) and l[1] == 'tvec' and r[1] == 'nat':
                return (f'(vdivn OP {l[0]} {r[0]})', 'tvec')
            fail(n, f'operator {type(n.op).__name__} on {l[1]}, {r[1]}')
        if isinstance(n, (ast.ListComp, ast.GeneratorExp)):
            return self.comp(n, env)
        if isinstance(n, ast.Call):
            c = chain(n.func)
            kw = {k.arg: k.value for k in n.keywords}
            if c == 'len' and len(n.args) == 1 and not kw:
                a = self.expr(n.args[0], env)
                if a[1] in ('rws', 'rwss', 'tvecs', 'nats'):
                    return (f'(length {a[0]})', 'nat')
            if c == 'float' and len(n.args) == 1 and not kw:
                a = self.expr(n.args[0], env)
                if a[1] == 'T':
                    return a
            if c in ('tuple', 'list') and len(n.args) == 1 and not kw:
                a = self.expr(n.args[0], env)
                if a[1] in ('rws', 'qlist', 'rwss', 'nats', 'tvecs'):
                    return a
            if c == 'range' and len(n.args) == 1 and not kw:
                a = self.expr(n.args[0], env)
                if a[1] == 'nat':
                    return (f'(seq 0 {a[0]})', 'nats')
            if c == 'itertools.combinations' and len(n.args) == 2 and not kw:
                a, b = self.expr(n.args[0], env), self.expr(n.args[1], env)
                if a[1] == 'nats' and b[1] == 'nat':
                    return (f'(subsets_of_size {a[0]} {b[0]})', 'natss')
            if c == 'itertools.permutations' and len(n.args) == 1 and not kw:
                a = self.expr(n.args[0], env)
                if a[1] == 'rws':
                    return (f'(it_permutations {a[0]})', 'rwss')
            if c == 'np.ones_like' and len(n.args) == 1 and not kw:
                a = self.expr(n.args[0], env)
                if a[1] == 'qlist':
                    return (f'(ones OP (length {a[0]}))', 'tvec')
            if c in ('np.sum', 'np.prod') and len(n.args) == 1 and set(kw) == {'axis'} and ast.unparse(kw['axis']) == '0':
                a = self.expr(n.args[0], env)
                if a[1] in ('tvecs', 'empty'):
                    return (f'({"vsum" if c == "np.sum" else "vprod"} OP {self.nt(env)} {a[0]})', 'tvec')
            if c == 'self._accumulate' and len(n.args) == 3 and not kw:
                k_, t_, r_ = (self.expr(a, env) for a in n.args)
                if (k_[1], t_[1], r_[1]) == ('nat', 'qlist', 'rws'):
                    return (f'(raw {k_[0]} {t_[0]} {r_[0]})', 'tvec')
            if c == 'PhaseTypeDistribution.accumulate':
                return self.self_call(n, kw, env)
            fail(n, 'call ' + ast.unparse(n)[:100])
        fail(n, f'expression {ast.unparse(n)[:80]}')

    def self_call(self, n, kw, env):
        if len(n.args) != 1 or ast.unparse(n.args[0]) != 'self' or not {'k', 'rewards', 'end_times'} <= set(kw) or \
                not set(kw) <= {'k', 'rewards', 'end_times', 'center', 'permute'}:
            fail(n, 'PhaseTypeDistribution.accumulate must be called as (self, k=, rewards=, end_times=[, center=][, permute=])')
        k_, r_, t_ = self.expr(kw['k'], env), self.expr(kw['rewards'], env), self.expr(kw['end_times'], env)
        if r_[1] == 'optrws':
            ropt = r_[0]
        elif r_[1] == 'rws':
            ropt = f'(Some {r_[0]})'
        else:
            fail(n, 'rewards argument of type ' + r_[1])
        if k_[1] != 'nat' or t_[1] != 'qlist':
            fail(n, 'k / end_times argument')
        p_ = self.expr(kw['permute'], env) if 'permute' in kw else ('true', 'bool')        # default permute=True
        c_ = self.expr(kw['center'], env) if 'center' in kw else ('true', 'bool')          # default center=True
        if p_[1] != 'bool' or c_[1] != 'bool':
            fail(n, 'center / permute argument')
        if self.mode == 'moment':
            return (f'(PhaseTypeDistribution_accumulate {k_[0]} {t_[0]} {ropt} {c_[0]} {p_[0]})', 'tvec')
        # inside accumulate itself: only calls that are decided to take the non-centring path
        lit_false = 'center' in kw and isinstance(kw['center'], ast.Constant) and kw['center'].value is False
        lit_k1 = isinstance(kw['k'], ast.Constant) and kw['k'].value == 1
        if not (lit_false or lit_k1):
            fail(n, 'recursive call of accumulate that is not decided to be non-centring (needs center=False or k=1)')
        return (f'(PhaseTypeDistribution_accumulate_nc {k_[0]} {t_[0]} {ropt} {p_[0]})', 'tvec')

    def comp(self, n, env):
        if len(n.generators) != 1 or n.generators[0].is_async or not isinstance(n.generators[0].target, ast.Name):
            fail(n, 'comprehension with several generators')
        g = n.generators[0]
        it = self.expr(g.iter, env)
        ety = {'nats': 'nat', 'rwss': 'rws', 'rws': 'rw', 'natss': 'nats'}.get(it[1])
        if ety is None:
            fail(n, 'comprehension over ' + it[1])
        v = self.fresh(g.target.id)
        env2 = dict(env, **{g.target.id: (v, ety)})
        src = it[0]
        for c in g.ifs:
            src = f'(filter (fun {v} => {self.cond(c, env2)}) {src})'
        e = self.expr(n.elt, env2)
        oty = {'rw': 'rws', 'tvec': 'tvecs', 'nat': 'nats'}.get(e[1])
        if oty is None:
            fail(n, 'comprehension producing ' + e[1])
        return (f'(map (fun {v} => {e[0]}) {src})', oty)

    def cond(self, n, env):
        if isinstance(n, ast.Compare) and len(n.ops) == 1:
            op = n.ops[0]
            if isinstance(op, (ast.Is, ast.IsNot)) and isinstance(n.comparators[0], ast.Constant) and n.comparators[0].value is None:
                fail(n, '`is None` outside the defaulting pattern')
            l, r = self.expr(n.left, env), self.expr(n.comparators[0], env)
            if isinstance(op, ast.Eq) and l[1] == r[1] == 'nat':
                return f'(Nat.eqb {l[0]} {r[0]})'
            if isinstance(op, ast.Gt) and l[1] == r[1] == 'nat':
                return f'(Nat.ltb {r[0]} {l[0]})'
            if isinstance(op, ast.Gt) and l[1] == 'Q' and r == ('0', 'nat'):
                return f'(if Qlt_le_dec 0 {l[0]} then true else false)'
            if isinstance(op, ast.NotIn) and l[1] == 'nat' and r[1] == 'nats':
                return f'(negb (existsb (Nat.eqb {l[0]}) {r[0]}))'
            fail(n, f'comparison {type(op).__name__} on {l[1]}, {r[1]}')
        e = self.expr(n, env)
        if e[1] == 'bool':
            return e[0]
        fail(n, 'condition ' + ast.unparse(n))

    # ------------------------------------------------------------------ statements (CPS)
    def assigned(self, stmts):
        out = []
        for s in stmts:
            if isinstance(s, (ast.Assign, ast.AugAssign)):
                for t in (s.targets if isinstance(s, ast.Assign) else [s.target]):
                    for x in (t.elts if isinstance(t, ast.Tuple) else [t]):
                        if isinstance(x, ast.Name) and x.id not in out:
                            out.append(x.id)
            elif isinstance(s, ast.For):
                out += [x for x in self.assigned(s.body) if x not in out]
            elif isinstance(s, ast.If):
                out += [x for x in self.assigned(s.body) + self.assigned(s.orelse) if x not in out]
        return out

    def returns(self, stmts):
        return any(isinstance(x, ast.Return) for s in stmts for x in ast.walk(s))

    def block(self, stmts, env, k):
        stmts = [s for s in stmts if not is_doc(s)]
        if not stmts:
            return k(env)
        s, rest = stmts[0], stmts[1:]
        nxt = lambda e: self.block(rest, e, k)
        if only_raises(s):
            self.skipped.append(f'line {s.lineno}: if {ast.unparse(s.test)}: raise')
            return nxt(env)
        txt = ast.unparse(s)
        if txt == 'k = int(k)' and env.get('k', (None, None))[1] == 'nat':
            self.skipped.append(f'line {s.lineno}: k = int(k) (identity on a natural number)')
            return nxt(env)
        if isinstance(s, ast.Return):
            return self.expr(s.value, env)[0]
        # ---- `if x is None: x = default`
        if (isinstance(s, ast.If) and not s.orelse and len(s.body) == 1 and isinstance(s.body[0], ast.Assign)
                and isinstance(s.test, ast.Compare) and len(s.test.ops) == 1 and isinstance(s.test.ops[0], ast.Is)
                and isinstance(s.test.left, ast.Name) and isinstance(s.test.comparators[0], ast.Constant)
                and s.test.comparators[0].value is None and len(s.body[0].targets) == 1
                and isinstance(s.body[0].targets[0], ast.Name) and s.body[0].targets[0].id == s.test.left.id):
            x = s.test.left.id
            if x not in env or env[x][1] not in ('optrws', 'optQ'):
                fail(s, f'defaulting of {x}, which is not an optional argument')
            inner = {'optrws': 'rws', 'optQ': 'Q'}[env[x][1]]
            d = self.expr(s.body[0].value, env)
            if d[1] != inner:
                fail(s, f'default of type {d[1]} for an optional {inner}')
            nv, v = self.fresh(x), self.fresh('v')
            return (f'(let {nv} := match {env[x][0]} with None => {d[0]} | Some {v} => {v} end in\n'
                    f'{nxt(dict(env, **{x: (nv, inner), "__opt_" + x: env[x]}))})')
        if isinstance(s, ast.If):
            c = self.cond(s.test, env)
            if self.mode == 'accumulate_nc' and ast.unparse(s.test) == 'center and k > 1':
                # the non-centring specialisation: this test is decided (false)
                if s.orelse:
                    fail(s, 'the centring test has an else branch')
                return nxt(env)
            if self.returns(s.body) and not s.orelse:
                if not isinstance([x for x in s.body if not is_doc(x)][-1], ast.Return):
                    fail(s, 'a branch that returns must end with the return')
                a = self.block(s.body, env, lambda e: fail(s, 'branch falls through'))
                return f'(if {c} then\n{a}\n else\n{nxt(env)})'
            if not self.returns(s.body) and not self.returns(s.orelse) and s.orelse:
                # both branches bind the same single name
                names = [m for m in self.assigned(s.body) if m in self.assigned(s.orelse)]
                if len(names) != 1:
                    fail(s, 'if/else without return must bind exactly one common name')
                m = names[0]
                tys = []
                def fin(e):
                    tys.append(e[m][1])
                    return e[m][0]
                self.default_T = True
                a = self.block(s.body, env, fin)
                b = self.block(s.orelse, env, fin)
                if len(set(tys)) != 1:
                    fail(s, 'branches bind different types')
                nv = self.fresh(m)
                return f'(let {nv} := (if {c} then\n{a}\n else\n{b}) in\n{nxt(dict(env, **{m: (nv, tys[0])}))})'
            fail(s, 'if statement of an unsupported shape')
        if isinstance(s, ast.Assign) and len(s.targets) == 1:
            t, val = s.targets[0], s.value
            if isinstance(t, ast.Tuple) and len(t.elts) == 2 and all(isinstance(e, ast.Name) for e in t.elts):
                e = self.expr(val, env)
                if e[1] != 'tvec':
                    fail(s, 'tuple assignment from ' + e[1])
                a, b = self.fresh(t.elts[0].id), self.fresh(t.elts[1].id)
                body = nxt(dict(env, **{t.elts[0].id: (a, 'T'), t.elts[1].id: (b, 'T')}))
                return f'(match {e[0]} with\n | [{a}; {b}] =>\n{body}\n | _ => o0 OP\n end)'
            if not isinstance(t, ast.Name):
                fail(s, 'assignment target')
            e = self.expr(val, env)
            ty = e[1]
            if ty == 'empty':
                ty = 'tvecs'        # `components = []`: a list of vectors (checked by its later uses)
            nv = self.fresh(t.id)
            return f'(let {nv} := {e[0]} in\n{nxt(dict(env, **{t.id: (nv, ty)}))})'
        if isinstance(s, ast.AugAssign) and isinstance(s.op, ast.Add) and isinstance(s.target, ast.Name):
            l, r = self.expr(s.target, env), self.expr(s.value, env)
            if l[1] != 'tvecs' or r[1] != 'tvecs':
                fail(s, f'+= on {l[1]}, {r[1]}')
            nv = self.fresh(s.target.id)
            return f'(let {nv} := ({l[0]} ++ {r[0]}) in\n{nxt(dict(env, **{s.target.id: (nv, "tvecs")}))})'
        if isinstance(s, ast.For) and not s.orelse and isinstance(s.target, ast.Name):
            it = self.expr(s.iter, env)
            ety = {'nats': 'nat', 'natss': 'nats'}.get(it[1])
            if ety is None:
                fail(s, 'for loop over ' + it[1])
            if self.returns(s.body):
                fail(s, 'return inside a for loop')
            carried = [m for m in self.assigned(s.body) if m in env]
            if len(carried) != 1:
                fail(s, 'a for loop must update exactly one name bound before it')
            m = carried[0]
            acc, v = self.fresh(m), self.fresh(s.target.id)
            benv = dict(env, **{m: (acc, env[m][1]), s.target.id: (v, ety)})
            body = self.block(s.body, benv, lambda e: e[m][0])
            nv = self.fresh(m)
            return (f'(let {nv} := fold_left (fun {acc} {v} =>\n{body}) {it[0]} {env[m][0]} in\n'
                    f'{nxt(dict(env, **{m: (nv, env[m][1])}))})')
        fail(s, f'statement not supported: {txt[:80]}')


HEADER = '''(* GENERATED FILE - DO NOT EDIT.  Regenerated on every run of the checks that depend on the moment assembly by
   /verif/translate/moments2coq.py (Python `ast`, fail-closed) from phasegen/distributions.py.
   The equivalence with the hand-written model (accumulate / moment of model/PhaseType.v) is proved in proofs/GenMomentsEquiv.v.

   Translated: PhaseTypeDistribution.accumulate (and its non-centring specialisation, which is what its recursive calls run),
   PhaseTypeDistribution.moment.
   Skipped statements (guards that raise, identities):
%s
   Reading of the source: see the docstring of the translator. *)
From Coq Require Import ZArith QArith List Arith Bool.
From PG Require Import base.Ops model.CoalModels model.Matrix model.PhaseType gen.NpMoments.
Import ListNotations.

Section Gen.
  Context {T : Type} (OP : Ops T) {Rw : Type}.
  Variable raw : nat -> list Q -> list Rw -> list T.      (* self._accumulate(k, tuple(end_times), rewards) *)
  Variable self_reward : Rw.                               (* self.reward *)
  Variables self_start_time self_t_max : Q.                (* self.tree_height.start_time, self.tree_height.t_max *)
'''


def get_method(tree, cname, mname):
    for c in tree.body:
        if isinstance(c, ast.ClassDef) and c.name == cname:
            fs = [s for s in c.body if isinstance(s, ast.FunctionDef) and s.name == mname]
            if len(fs) == 1:
                return fs[0]
    raise Unsupported(f'{cname}.{mname}: expected exactly one definition')


def defaults_of(f):
    a = f.args
    names = [x.arg for x in a.args]
    ds = [None] * (len(names) - len(a.defaults)) + [ast.unparse(d) for d in a.defaults]
    return names, dict(zip(names, ds))


def translate(src_text):
    tree = ast.parse(src_text)
    imports = {}
    for s in tree.body:
        if isinstance(s, ast.Import):
            for a in s.names:
                imports[a.asname or a.name] = a.name
    for k, v in {'np': 'numpy', 'itertools': 'itertools'}.items():
        if imports.get(k) != v:
            raise Unsupported(f'name {k} is not bound to module {v} (found {imports.get(k)})')
    out, skipped = [], []
    f = get_method(tree, 'PhaseTypeDistribution', 'accumulate')
    names, ds = defaults_of(f)
    if names != ['self', 'k', 'end_times', 'rewards', 'center', 'permute'] or \
            (ds['rewards'], ds['center'], ds['permute']) != ('None', 'True', 'True') or ds['k'] is not None or ds['end_times'] is not None:
        fail(f, 'accumulate: unexpected signature or defaults')
    if [ast.unparse(d) for d in f.decorator_list]:
        fail(f, 'accumulate: unexpected decorators')
    for mode, name, params in (('accumulate_nc', 'PhaseTypeDistribution_accumulate_nc', '(permute : bool)'),
                               ('accumulate', 'PhaseTypeDistribution_accumulate', '(center permute : bool)')):
        fn = Fn(mode)
        env = {'k': ('k', 'nat'), 'end_times': ('end_times', 'qlist'), 'rewards': ('rewards', 'optrws'), 'permute': ('permute', 'bool')}
        if mode == 'accumulate':
            env['center'] = ('center', 'bool')
        else:
            env['center'] = ('false', 'bool')
        term = fn.block(f.body, env, lambda e: fail(f, 'accumulate can fall off its end'))
        what = 'the non-centring part of PhaseTypeDistribution.accumulate (its test `center and k > 1` decided false)' if mode == 'accumulate_nc' \
            else 'PhaseTypeDistribution.accumulate'
        out.append(f'  (* {what} *)\n  Definition {name} (k : nat) (end_times : list Q) (rewards : option (list Rw)) {params} : list T :=\n{term}.\n')
        skipped += [f'     {mode} ' + x for x in fn.skipped]
    f = get_method(tree, 'PhaseTypeDistribution', 'moment')
    names, ds = defaults_of(f)
    if names != ['self', 'k', 'rewards', 'start_time', 'end_time', 'center', 'permute'] or \
            (ds['rewards'], ds['start_time'], ds['end_time'], ds['center'], ds['permute']) != ('None', 'None', 'None', 'True', 'True'):
        fail(f, 'moment: unexpected signature or defaults')
    if sorted(ast.unparse(d) for d in f.decorator_list) != ['_make_hashable', 'cache']:
        fail(f, 'moment: unexpected decorators (expected @_make_hashable @cache: memoisation of a pure function)')
    fn = Fn('moment')
    env = {'k': ('k', 'nat'), 'rewards': ('rewards', 'optrws'), 'start_time': ('start_time', 'optQ'), 'end_time': ('end_time', 'optQ'),
           'center': ('center', 'bool'), 'permute': ('permute', 'bool')}
    term = fn.block(f.body, env, lambda e: fail(f, 'moment can fall off its end'))
    out.append('  (* PhaseTypeDistribution.moment *)\n  Definition PhaseTypeDistribution_moment (k : nat) (rewards : option (list Rw)) (start_time end_time : option Q)\n'
               '             (center permute : bool) : T :=\n' + term + '.\n')
    skipped += ['     moment ' + x for x in fn.skipped]
    text = HEADER % '\n'.join(skipped) + '\n' + '\n'.join(out) + 'End Gen.\n'
    return text, ['PhaseTypeDistribution.accumulate', 'PhaseTypeDistribution.moment']


def main():
    ap = argparse.ArgumentParser()
    ap.add_argument('--src', default=SRC_DEFAULT)
    ap.add_argument('--out', default=None)
    a = ap.parse_args()
    try:
        text, funcs = translate(open(a.src).read())
    except Unsupported as e:
        print('UNSUPPORTED:', e, file=sys.stderr)
        sys.exit(2)
    if a.out:
        open(a.out, 'w').write(text)
    else:
        sys.stdout.write(text)


if __name__ == '__main__':
    main()
