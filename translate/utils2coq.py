#!/venv/bin/python
"""utils2coq - fail-closed PIN of phasegen/utils.py (the helpers every other reading leans on), with a Gallina reading:

    parallelize(func, data, parallelize, pbar, ...)   the ORDERED map of func over data: `Pool().imap` (ordered, unlike imap_unordered) when
                                                      parallelize and len(data) > 1, the builtin `map` otherwise; `tqdm(iterator, ...)` yields
                                                      the items of the iterator unchanged; `np.array(list(iterator), dtype=dtype)` keeps the order
    takewhile_inclusive(predicate, iterable)          the items up to AND INCLUDING the first one that fails the predicate
    take_n(iterable, n)                               the first n items (the generator raises when the iterable is shorter: option)
    multiset_permutations(items)                      body pinned only (Takaoka's linked-list algorithm); its reading in the other ties is the
                                                      list of distinct permutations - not derived here (trusted base)

The bodies are compared statement by statement with the expected text (a rewrite - harmless or not - fails closed).
"""
import argparse
import ast
import sys

SRC_DEFAULT = '/repo/phasegen/utils.py'
OUT_DEFAULT = '/verif/coq/theories/gen/UtilsGen.v'


class Unsupported(Exception):
    pass


def is_doc(s):
    if isinstance(s, ast.Pass):
        return True
    return isinstance(s, ast.Expr) and isinstance(s.value, ast.Constant) and isinstance(s.value.value, str)


def get_function(tree, name):
    fs = [s for s in tree.body if isinstance(s, ast.FunctionDef) and s.name == name]
    if len(fs) != 1:
        raise Unsupported(f'{name}: expected exactly one definition')
    return fs[0]


def texts(f):
    return [' '.join(ast.unparse(s).split()) for s in f.body if not is_doc(s)]


def strip_docs(node):
    """drop docstrings of nested functions (they are not code)"""
    for n in ast.walk(node):
        if isinstance(n, ast.FunctionDef):
            n.body = [s for s in n.body if not is_doc(s)] or [ast.Pass()]
    return node


def pin(tree, name, want, args):
    f = strip_docs(get_function(tree, name))
    got = texts(f)
    want = [' '.join(w.split()) for w in want]
    if got != want:
        raise Unsupported(f'{name}: unexpected body:\n' + '\n'.join('  ' + repr(x) for x in got))
    if [a.arg for a in f.args.args] != args:
        raise Unsupported(f'{name}: unexpected parameters {[a.arg for a in f.args.args]}')
    if f.decorator_list:
        raise Unsupported(f'{name}: unexpected decorators')


TEXT = '''(* GENERATED FILE - DO NOT EDIT.  Regenerated on every run of the checks that depend on the helpers of phasegen/utils.py by
   /verif/translate/utils2coq.py (Python `ast`, fail-closed PIN of the function bodies).  The theorems about it are in
   proofs/GenUtilsEquiv.v.  Reading of the source: see the docstring of the translator. *)
From Coq Require Import List Arith Bool.
Import ListNotations.

Section Gen.
  Context {A B : Type}.

  (* Pool().imap(func, data) and map(func, data): both yield func(x) for the items x of data IN THE ORDER of data *)
  Definition pool_imap (func : A -> B) (data : list A) : list B := map func data.
  Definition builtin_map (func : A -> B) (data : list A) : list B := map func data.
  (* tqdm(iterator, ...) yields the items of the iterator unchanged *)
  Definition tqdm (it : list B) : list B := it.

  (* parallelize *)
  Definition parallelize (func : A -> B) (data : list A) (parallelize pbar : bool) : list B :=
    let iterator := if (parallelize && Nat.ltb 1 (length data))%bool then pool_imap func data else builtin_map func data in
    let iterator := if pbar then tqdm iterator else iterator in
    iterator.

  (* takewhile_inclusive: `for item in iterator: yield item; if not predicate(item): break` *)
  Fixpoint takewhile_inclusive (predicate : A -> bool) (iterable : list A) : list A :=
    match iterable with
    | [] => []
    | item :: rest => item :: (if negb (predicate item) then [] else takewhile_inclusive predicate rest)
    end.

  (* take_n: `for _ in range(int(n)): yield next(iterator)`; next() on an exhausted iterator raises (None) *)
  Fixpoint take_n (iterable : list A) (n : nat) {struct n} : option (list A) :=
    match n with
    | O => Some []
    | S m => match iterable with
             | [] => None
             | x :: rest => match take_n rest m with Some r => Some (x :: r) | None => None end
             end
    end.
End Gen.
'''


def translate(src_text):
    tree = ast.parse(src_text)
    pin(tree, 'parallelize',
        ['if parallelize and len(data) > 1: iterator = Pool().imap(func, data) else: iterator = map(func, data)',
         'if pbar: iterator = tqdm(iterator, total=len(data), unit_scale=batch_size, desc=desc, delay=delay)',
         'return np.array(list(iterator), dtype=dtype)'],
        ['func', 'data', 'parallelize', 'pbar', 'batch_size', 'desc', 'dtype', 'delay'])
    pin(tree, 'takewhile_inclusive',
        ['iterator = iter(iterable)', 'for item in iterator: yield item if not predicate(item): break'], ['predicate', 'iterable'])
    pin(tree, 'take_n',
        ['iterator = iter(iterable)', 'for _ in range(int(n)): yield next(iterator)'], ['iterable', 'n'])
    pin(tree, 'multiset_permutations',
        ['def visit(head): return tuple((u[i] for i in map(E.__getitem__, itertools.accumulate(range(N - 1), lambda e, N: nxts[e], initial=head))))',
         'u = list(set(items))',
         'if len(u) == 0: yield () return',
         'if len(u) == 1: yield ((u[0],) * len(items)) return',
         'E = list(sorted(map(u.index, items)))', 'N = len(E)', 'nxts = list(range(1, N)) + [None]', 'head = 0',
         'i, ai, aai = (N - 3, N - 2, N - 1)', 'yield visit(head)',
         'while aai is not None or E[ai] > E[head]: before = i if aai is None or E[i] > E[aai] else ai k = nxts[before] '
         'if E[k] > E[head]: i = k nxts[before], nxts[k], head = (nxts[k], head, k) ai = nxts[i] aai = nxts[ai] yield visit(head)'],
        ['items'])
    # the imports the reading relies on: Pool is multiprocess.pool.Pool (imap is ordered), tqdm is tqdm.tqdm
    imps = {' '.join(ast.unparse(s).split()) for s in tree.body if isinstance(s, (ast.Import, ast.ImportFrom))}
    for need in ('from multiprocess.pool import Pool', 'from tqdm import tqdm', 'import numpy as np', 'import itertools'):
        if need not in imps:
            raise Unsupported(f'missing import: {need}')
    return TEXT, ['parallelize', 'takewhile_inclusive', 'take_n', 'multiset_permutations']


def main():
    ap = argparse.ArgumentParser()
    ap.add_argument('--src', default=SRC_DEFAULT)
    ap.add_argument('--out', default=None)
    a = ap.parse_args()
    try:
        text, funcs = translate(open(a.src).read())
    except Unsupported as e:
        print('UNSUPPORTED:', e, file=sys.stderr)
        sys.exit(2)
    if a.out:
        open(a.out, 'w').write(text)
    else:
        sys.stdout.write(text)


if __name__ == '__main__':
    main()
