#!/venv/bin/python
"""coalescent2coq - fail-closed PIN of the plumbing of class Coalescent (phasegen/distributions.py): which distribution object, on
which state space and with which reward, answers which request.

    Coalescent.__init__ (attributes start_time, pbar, parallelize, regularize), lineage_counting_state_space, block_counting_state_space
    (both built for the epoch at time 0), tree_height (TreeHeightDistribution on the lineage-counting space with the object's start and
    end time), total_branch_length (PhaseTypeDistribution with TotalBranchLengthReward on the lineage-counting space), sfs / fsfs
    (UnfoldedSFSDistribution / FoldedSFSDistribution on the block-counting space), _get_dist (unit reward; the lineage-counting space
    iff every reward supports it - Reward.support, tied by the `rewards` translation), moment, _raw_moment, accumulate (default rewards:
    k copies of TreeHeightReward; everything else passed through to the distribution of _get_dist), drop_cache.

The bodies are compared statement by statement with the expected text (a rewrite - harmless or not - fails closed).  The Gallina reading
records the ROUTE of each request as data (state space, own reward, rewards, window, flags)."""
import argparse
import ast
import sys

SRC_DEFAULT = '/repo/phasegen/distributions.py'
OUT_DEFAULT = '/verif/coq/theories/gen/CoalescentGen.v'


class Unsupported(Exception):
    pass


def is_doc(s):
    if isinstance(s, ast.Pass):
        return True
    return isinstance(s, ast.Expr) and isinstance(s.value, ast.Constant) and isinstance(s.value.value, str)


def get_method(tree, cname, mname):
    for c in tree.body:
        if isinstance(c, ast.ClassDef) and c.name == cname:
            fs = [s for s in c.body if isinstance(s, ast.FunctionDef) and s.name == mname]
            if len(fs) == 1:
                return fs[0]
    raise Unsupported(f'{cname}.{mname}: expected exactly one definition')


def texts(f):
    return [' '.join(ast.unparse(s).split()) for s in f.body if not is_doc(s)]


def pin(tree, cname, mname, want, deco=None):
    f = get_method(tree, cname, mname)
    got = texts(f)
    want = [' '.join(w.split()) for w in want]
    if got != want:
        raise Unsupported(f'{cname}.{mname}: unexpected body:\n' + '\n'.join('  ' + repr(x) for x in got))
    if deco is not None and sorted(ast.unparse(d) for d in f.decorator_list) != deco:
        raise Unsupported(f'{cname}.{mname}: unexpected decorators')


TEXT = '''(* GENERATED FILE - DO NOT EDIT.  Regenerated on every run of the checks that depend on the routes of class Coalescent by
   /verif/translate/coalescent2coq.py (Python `ast`, fail-closed PIN of the method bodies) from phasegen/distributions.py.
   Theorems: proofs/GenCoalescentEquiv.v. *)
From Coq Require Import ZArith QArith List Arith Bool.
From PG Require Import base.Ops model.CoalModels model.StateSpace model.Rewards.
Import ListNotations.

Inductive space := LineageCounting | BlockCounting.
(* a request as it reaches PhaseTypeDistribution.moment / accumulate: the state space, the distribution's own reward, the order, the
   rewards, the window given on the call (None = the object's own), center, permute *)
Record route := mkRoute { r_space : space; r_own : reward; r_k : nat; r_rewards : list reward;
                          r_start : option Q; r_end : option Q; r_center : bool; r_permute : bool }.

(* Coalescent._get_dist: unit reward, lineage counting iff every reward supports it *)
Definition Coalescent_get_dist_space (rewards : list reward) : space := if choose_lc rewards then LineageCounting else BlockCounting.
(* Coalescent.moment *)
Definition Coalescent_moment (k : nat) (rewards : option (list reward)) (start_time end_time : option Q) (center permute : bool) : route :=
  let rewards := match rewards with None => repeat RTreeHeight k | Some r => r end in
  mkRoute (Coalescent_get_dist_space rewards) RUnit k rewards start_time end_time center permute.
(* Coalescent._raw_moment *)
Definition Coalescent_raw_moment (k : nat) (rewards : option (list reward)) (start_time end_time : option Q) : route :=
  Coalescent_moment k rewards start_time end_time false false.
(* Coalescent.accumulate (the end times are passed through) *)
Definition Coalescent_accumulate (k : nat) (rewards : option (list reward)) (center permute : bool) : route :=
  let rewards := match rewards with None => repeat RTreeHeight k | Some r => r end in
  mkRoute (Coalescent_get_dist_space rewards) RUnit k rewards None None center permute.
(* the distributions behind the properties: state space and own reward *)
Definition Coalescent_tree_height : space * reward := (LineageCounting, RTreeHeight).
Definition Coalescent_total_branch_length : space * reward := (LineageCounting, RTotalBranchLength).
Definition Coalescent_sfs : space * reward := (BlockCounting, RUnit).
Definition Coalescent_fsfs : space * reward := (BlockCounting, RUnit).
'''


def translate(src_text):
    tree = ast.parse(src_text)
    pin(tree, 'Coalescent', '__init__',
        ['super().__init__(n=n, model=model, loci=loci, recombination_rate=recombination_rate, demography=demography, end_time=end_time)',
         'self.start_time: float = start_time', 'self.pbar: bool = pbar', 'self.parallelize: bool = parallelize',
         'self.regularize: bool = regularize'])
    pin(tree, 'Coalescent', 'lineage_counting_state_space',
        ['return LineageCountingStateSpace(lineage_config=self.lineage_config, locus_config=self.locus_config, model=self.model, '
         'epoch=self.demography.get_epoch(0))'], deco=['cached_property'])
    pin(tree, 'Coalescent', 'block_counting_state_space',
        ['return BlockCountingStateSpace(lineage_config=self.lineage_config, locus_config=self.locus_config, model=self.model, '
         'epoch=self.demography.get_epoch(0))'], deco=['cached_property'])
    pin(tree, 'Coalescent', 'tree_height',
        ['return TreeHeightDistribution(state_space=self.lineage_counting_state_space, demography=self.demography, '
         'start_time=self.start_time, end_time=self.end_time, regularize=self.regularize)'], deco=['cached_property'])
    pin(tree, 'Coalescent', 'total_branch_length',
        ['return PhaseTypeDistribution(reward=TotalBranchLengthReward(), tree_height=self.tree_height, '
         'state_space=self.lineage_counting_state_space, demography=self.demography, regularize=self.regularize)'], deco=['cached_property'])
    pin(tree, 'Coalescent', 'sfs',
        ['return UnfoldedSFSDistribution(state_space=self.block_counting_state_space, tree_height=self.tree_height, '
         'demography=self.demography, regularize=self.regularize)'], deco=['cached_property'])
    pin(tree, 'Coalescent', 'fsfs',
        ['return FoldedSFSDistribution(state_space=self.block_counting_state_space, tree_height=self.tree_height, '
         'demography=self.demography, regularize=self.regularize)'], deco=['cached_property'])
    pin(tree, 'Coalescent', '_get_dist',
        ['if rewards is None: rewards = [TreeHeightReward()] * k',
         'if Reward.support(LineageCountingStateSpace, rewards): state_space = self.lineage_counting_state_space else: '
         'state_space = self.block_counting_state_space',
         'return PhaseTypeDistribution(reward=UnitReward(), tree_height=self.tree_height, state_space=state_space, '
         'demography=self.demography, regularize=self.regularize)'], deco=[])
    pin(tree, 'Coalescent', 'moment',
        ['if rewards is None: rewards = (TreeHeightReward(),) * int(k)',
         'return self._get_dist(k, rewards).moment(k=k, rewards=rewards, start_time=start_time, end_time=end_time, center=center, '
         'permute=permute)'], deco=['_make_hashable', 'cache'])
    pin(tree, 'Coalescent', '_raw_moment',
        ['return self.moment(k=k, rewards=rewards, start_time=start_time, end_time=end_time, center=False, permute=False)'], deco=[])
    pin(tree, 'Coalescent', 'accumulate',
        ['if rewards is None: rewards = (TreeHeightReward(),) * int(k)',
         'return self._get_dist(k, rewards).accumulate(k=k, end_times=end_times, rewards=rewards, center=center, permute=permute)'], deco=[])
    pin(tree, 'Coalescent', 'drop_cache',
        ["for name in ['lineage_counting_state_space', 'block_counting_state_space']: if name in self.__dict__: "
         "self.__dict__[name].drop_cache()"], deco=[])
    for mname, want in (('moment', 'self, k: int=1, rewards: Sequence[Reward]=None, start_time: float=None, end_time: float=None, '
                                   'center: bool=True, permute: bool=True'),
                        ('accumulate', 'self, k: int, end_times: Iterable[float], rewards: Sequence[Reward]=None, center: bool=True, '
                                       'permute: bool=True')):
        if ast.unparse(get_method(tree, 'Coalescent', mname).args) != want:
            raise Unsupported(f'Coalescent.{mname}: unexpected signature / defaults')
    return TEXT, ['Coalescent.__init__', 'Coalescent.*_state_space', 'Coalescent.tree_height/total_branch_length/sfs/fsfs',
                  'Coalescent._get_dist', 'Coalescent.moment/_raw_moment/accumulate', 'Coalescent.drop_cache']


def main():
    ap = argparse.ArgumentParser()
    ap.add_argument('--src', default=SRC_DEFAULT)
    ap.add_argument('--out', default=None)
    a = ap.parse_args()
    try:
        text, funcs = translate(open(a.src).read())
    except Unsupported as e:
        print('UNSUPPORTED:', e, file=sys.stderr)
        sys.exit(2)
    if a.out:
        open(a.out, 'w').write(text)
    else:
        sys.stdout.write(text)


if __name__ == '__main__':
    main()
