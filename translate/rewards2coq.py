#!/venv/bin/python
"""rewards2coq - fail-closed translator of phasegen/rewards.py to Gallina (stdlib `ast` only).

Translated: the `_get` method of every concrete reward class (the guard `isinstance(state_space, ...)` and the
NumPy expression over `state_space.lineages`), FoldedSFSReward._get_indices, the constructors (stored attributes and
`raise ValueError` guards), and `Reward.supports` / `CompositeReward.supports` through the class hierarchy.
NOT translated: CombinedReward.__init__ (list surgery with isinstance; left to the differential test against
model/Rewards.v `combine_loop`), CustomReward (a user function), __hash__ / __eq__, prod / sum helpers.

Per-state reading: `state_space.lineages` has shape (k, L, D, B); axis 0 is the state.  The translator accepts an
expression only if axis 0 is treated pointwise (never reduced; indexed only by `:`; np.sum/np.prod with axis=0 only
over a Python list of arrays) and emits a function of ONE state (gen/NpState.v gives the meaning of each NumPy
operation on the remaining axes).  Anything unknown is an error naming the source line.
"""
import argparse
import ast
import difflib
import sys

SRC_DEFAULT = '/repo/phasegen/rewards.py'
OUT_DEFAULT = '/verif/coq/theories/gen/RewardsGen.v'

# Python class <-> constructor of the inductive type `reward` of model/Rewards.v (the dispatch table is part of the
# trusted base of the translator)
CTOR = {
    'TreeHeightReward': ('RTreeHeight', []),
    'TotalTreeHeightReward': ('RTotalTreeHeight', []),
    'TotalBranchLengthReward': ('RTotalBranchLength', []),
    'UnfoldedSFSReward': ('RUnfoldedSFS', ['index']),
    'FoldedSFSReward': ('RFoldedSFS', ['index']),
    'LineageReward': ('RLineage', ['n']),
    'DemeReward': ('RDeme', ['pop']),
    'LocusReward': ('RLocus', ['locus']),
    'UnitReward': ('RUnit', []),
    'BlockCountingUnitReward': ('RBlockCountingUnit', []),
    'TotalBranchLengthLocusReward': ('RTBLLocus', ['locus']),
    'ProductReward': ('RProduct', ['rewards']),
    'SumReward': ('RSum', ['rewards']),
}
SKIPPED_CLASSES = {'CombinedReward', 'CustomReward'}
ABSTRACT = {'Reward', 'LineageCountingReward', 'BlockCountingReward', 'SFSReward', 'CompositeReward'}
EXPECTED_IMPORTS = {
    'np': ('numpy', None),
    'StateSpace': ('state_space', 'StateSpace'),
    'LineageCountingStateSpace': ('state_space', 'LineageCountingStateSpace'),
    'BlockCountingStateSpace': ('state_space', 'BlockCountingStateSpace'),
}


class Unsupported(Exception):
    pass


def fail(node, msg):
    raise Unsupported(f'line {getattr(node, "lineno", "?")}: {msg}')


def is_doc(s):
    """statements without effect on the translated value: docstrings, `pass`, and pure logging calls (logger.* / self._logger.* /
    logging.* / warnings.warn whose arguments contain no call, walrus or yield)"""
    if isinstance(s, ast.Pass):
        return True
    if isinstance(s, ast.Expr) and isinstance(s.value, ast.Constant) and isinstance(s.value.value, str):
        return True
    if isinstance(s, ast.Expr) and isinstance(s.value, ast.Call):
        f, parts = s.value.func, []
        while isinstance(f, ast.Attribute):
            parts.append(f.attr)
            f = f.value
        if isinstance(f, ast.Name):
            parts.append(f.id)
            parts = parts[::-1]
            is_log = (parts[:2] == ['self', '_logger'] or parts[0] in ('logger', 'logging') or parts == ['warnings', 'warn']) and len(parts) >= 2
            if is_log and parts[-1] in ('debug', 'info', 'warning', 'error', 'critical', 'warn', 'log'):
                inner = [n for a in list(s.value.args) + [k.value for k in s.value.keywords] for n in ast.walk(a)]
                if not any(isinstance(n, (ast.Call, ast.NamedExpr, ast.Yield, ast.YieldFrom, ast.Await, ast.Lambda)) for n in inner):
                    return True
    return False


def is_name(n, s):
    return isinstance(n, ast.Name) and n.id == s


def attr_chain(n):
    """a.b.c -> ['a','b','c'] or None"""
    out = []
    while isinstance(n, ast.Attribute):
        out.append(n.attr)
        n = n.value
    if isinstance(n, ast.Name):
        out.append(n.id)
        return out[::-1]
    return None


class Module:
    def __init__(self, tree):
        self.classes, self.imports = {}, {}
        for s in tree.body:
            if is_doc(s):
                continue
            if isinstance(s, ast.Import):
                for a in s.names:
                    self.imports[a.asname or a.name] = (a.name, None)
            elif isinstance(s, ast.ImportFrom):
                for a in s.names:
                    self.imports[a.asname or a.name] = (s.module, a.name)
            elif isinstance(s, ast.ClassDef):
                if s.decorator_list or s.keywords or s.name in self.classes:
                    fail(s, f'class {s.name}: decorators / keywords / redefinition not supported')
                self.classes[s.name] = s
            else:
                fail(s, f'module-level statement {type(s).__name__} not supported')
        for k, v in EXPECTED_IMPORTS.items():
            if self.imports.get(k) != v:
                raise Unsupported(f'name {k} is not bound to {v} (found {self.imports.get(k)})')
        for name in ('isinstance', 'int', 'range', 'all', 'any', 'len', 'str', 'hash', 'list', 'next', 'super'):
            if name in self.imports or name in self.classes:
                raise Unsupported(f'builtin {name} is rebound')
        unknown = set(self.classes) - set(CTOR) - SKIPPED_CLASSES - ABSTRACT
        if unknown:
            raise Unsupported(f'reward classes without a constructor in model/Rewards.v: {sorted(unknown)}')
        missing = (set(CTOR) | ABSTRACT | SKIPPED_CLASSES) - set(self.classes)
        if missing:
            raise Unsupported(f'expected classes are missing: {sorted(missing)}')

    def mro(self, cname):
        """C3 is not needed for this hierarchy; depth-first left-to-right with duplicates dropped from the left is checked
        against Python's own linearisation in self.check_mro"""
        cls = self.classes[cname]
        seqs = []
        for b in cls.bases:
            if isinstance(b, ast.Name) and b.id in self.classes:
                seqs.append(self.mro(b.id))
            elif is_name(b, 'ABC') and self.imports.get('ABC') == ('abc', 'ABC'):
                continue
            else:
                fail(b, f'unknown base class of {cname}')
        seqs.append([b.id for b in cls.bases if isinstance(b, ast.Name) and b.id in self.classes])
        # C3 merge
        out = [cname]
        seqs = [list(s) for s in seqs if s]
        while seqs:
            for s in seqs:
                h = s[0]
                if not any(h in t[1:] for t in seqs):
                    break
            else:
                fail(cls, f'inconsistent hierarchy at {cname}')
            out.append(h)
            seqs = [[x for x in t if x != h] for t in seqs]
            seqs = [t for t in seqs if t]
        return out

    def method(self, cname, mname):
        for c in self.mro(cname):
            for s in self.classes[c].body:
                if isinstance(s, ast.FunctionDef) and s.name == mname:
                    return c, s
        return None, None


# ------------------------------------------------------------------------------------------------
# typed expressions: types N0..N3 (nat arrays by per-state rank), B0, B1 (bool), Z, ZL (list Z), T
# ------------------------------------------------------------------------------------------------
class Fn:
    def __init__(self, mod, cname, attrs):
        self.mod, self.cname, self.attrs = mod, cname, attrs
        self.env = {}
        self.support = []          # coq bool terms that must all hold (besides the guard)
        self.used = set()

    # -- helpers
    def to_Z(self, e):
        c, t = e
        if t == 'Z':
            return c
        if t == 'N0':
            return f'(Z.of_nat {c})'
        raise Unsupported(f'cannot use a value of type {t} as an integer index')

    def nat_of(self, node, e):
        c, t = e
        if t == 'N0':
            return c
        fail(node, f'expected a non-negative integer (nat), got type {t}')

    def config(self, node, chain):
        """state_space.<...> values that do not depend on the state"""
        if chain == ['state_space', 'lineages']:
            return ('(lin s)', 'N3')
        if chain == ['state_space', 'locus_config', 'n']:
            self.used.add('locus_config_n')
            return ('locus_config_n', 'N0')
        if chain == ['state_space', 'lineage_config', 'n']:
            self.used.add('lineage_config_n')
            return ('lineage_config_n', 'N0')
        fail(node, f'unsupported attribute {".".join(chain)}')

    def axes(self, node, call):
        kw = {k.arg: k.value for k in call.keywords}
        if set(kw) != {'axis'}:
            fail(node, 'sum / any needs exactly the keyword axis')
        a = kw['axis']
        if isinstance(a, ast.Constant) and isinstance(a.value, int):
            return [a.value]
        if isinstance(a, ast.Tuple) and all(isinstance(x, ast.Constant) and isinstance(x.value, int) for x in a.elts):
            return [x.value for x in a.elts]
        fail(node, 'axis must be an int or a tuple of ints')

    def do_sum(self, node, e, axes):
        c, t = e
        if not (t.startswith('N') and t != 'N0'):
            fail(node, f'.sum on a value of type {t}')
        rank = int(t[1])
        if any(a < 1 or a > rank for a in axes) or len(set(axes)) != len(axes):
            fail(node, f'sum over axes {axes}: the state axis 0 must not be reduced and axes must exist (rank {rank} per state)')
        for a in sorted((a - 1 for a in axes), reverse=True):
            c = f'(np_sum{rank}_{a} {c})'
            rank -= 1
        return (c, f'N{rank}')

    def expr(self, n):
        if isinstance(n, ast.Constant):
            if isinstance(n.value, bool) or not isinstance(n.value, int):
                fail(n, f'constant {n.value!r} not supported')
            return (str(n.value), 'N0') if n.value >= 0 else (f'({n.value})%Z', 'Z')
        if isinstance(n, ast.Name):
            if n.id in self.env:
                return self.env[n.id]
            fail(n, f'unknown name {n.id}')
        if isinstance(n, ast.Attribute):
            chain = attr_chain(n)
            if chain and chain[0] == 'self' and len(chain) == 2:
                if chain[1] not in self.attrs:
                    fail(n, f'unknown attribute self.{chain[1]} (not stored by __init__)')
                kind = self.attrs[chain[1]]
                if kind == 'nat':
                    self.used.add('self_' + chain[1])
                    return ('self_' + chain[1], 'N0')
                fail(n, f'self.{chain[1]} cannot be used as a number')
            if chain and chain[0] == 'state_space':
                return self.config(n, chain)
            fail(n, 'unsupported attribute expression ' + ast.unparse(n))
        if isinstance(n, ast.BinOp):
            l, r = self.expr(n.left), self.expr(n.right)
            if isinstance(n.op, ast.Sub):
                if l[1] in ('N0', 'Z') and r[1] in ('N0', 'Z'):
                    return (f'({self.to_Z(l)} - {self.to_Z(r)})%Z', 'Z')
            if isinstance(n.op, ast.Add):
                if l[1] == 'N0' and r[1] == 'N0':
                    return (f'({l[0]} + {r[0]})', 'N0')
                if l[1] in ('N0', 'Z') and r[1] in ('N0', 'Z'):
                    return (f'({self.to_Z(l)} + {self.to_Z(r)})%Z', 'Z')
            if isinstance(n.op, ast.Mult):
                if l[1] == 'N0' and r[1] == 'N0':
                    return (f'({l[0]} * {r[0]})', 'N0')
            if isinstance(n.op, ast.Div):
                if l[1] == 'N0' and r[1] == 'N0':
                    return (f'(odiv OP (oofN OP {l[0]}) (oofN OP {r[0]}))', 'T')
            fail(n, f'operator {type(n.op).__name__} on types {l[1]}, {r[1]} not supported')
        if isinstance(n, ast.Compare):
            if len(n.ops) != 1:
                fail(n, 'chained comparison not supported')
            l, r = self.expr(n.left), self.expr(n.comparators[0])
            op = n.ops[0]
            name = {ast.Gt: 'gt', ast.Lt: 'lt', ast.Eq: 'eq'}.get(type(op))
            if name is None:
                fail(n, f'comparison {type(op).__name__} not supported')
            if l[1] in ('N0', 'N1') and r[1] == 'N0':
                return (f'(np_{name}{l[1][1]} {l[0]} {r[0]})', 'B' + l[1][1])
            if l[1] in ('N0', 'Z') and r[1] in ('N0', 'Z'):
                zop = {'gt': 'Z.gtb', 'lt': 'Z.ltb', 'eq': 'Z.eqb'}[name]
                return (f'({zop} {self.to_Z(l)} {self.to_Z(r)})', 'B0')
            fail(n, f'comparison of types {l[1]}, {r[1]} not supported')
        if isinstance(n, ast.Subscript):
            base = self.expr(n.value)
            if not base[1].startswith('N') or base[1] == 'N0':
                fail(n, f'subscript of a value of type {base[1]}')
            rank = int(base[1][1])
            sl = n.slice
            elts = sl.elts if isinstance(sl, ast.Tuple) else [sl]
            if not elts or not (isinstance(elts[0], ast.Slice) and elts[0].lower is None and elts[0].upper is None and elts[0].step is None):
                fail(n, 'the state axis (axis 0) must be indexed by `:`')
            idx = [(p, e) for p, e in enumerate(elts) if not (isinstance(e, ast.Slice) and e.lower is None and e.upper is None and e.step is None)]
            if any(isinstance(e, ast.Slice) for _, e in idx):
                fail(n, 'only full slices `:` are supported')
            if len(idx) != 1 or len(elts) - 1 > rank:
                fail(n, 'exactly one integer / index-array subscript is supported')
            p, e = idx[0]
            v = self.expr(e)
            ax = p - 1
            if v[1] == 'ZL':
                if not (rank == 3 and ax == 2):
                    fail(n, 'index arrays are supported on the last axis of lineages only')
                return (f'(np_take3_2 {base[0]} {v[0]})', 'N3')
            return (f'(np_get{rank}_{ax} {base[0]} {self.to_Z(v)})', f'N{rank - 1}')
        if isinstance(n, ast.Call):
            return self.call(n)
        fail(n, f'expression {type(n).__name__} not supported')

    def call(self, n):
        f = n.func
        chain = attr_chain(f)
        # x.sum(axis=..), x.astype(int)
        if isinstance(f, ast.Attribute) and f.attr == 'sum' and not n.args:
            return self.do_sum(n, self.expr(f.value), self.axes(n, n))
        if isinstance(f, ast.Attribute) and f.attr == 'astype' and len(n.args) == 1 and is_name(n.args[0], 'int') and not n.keywords:
            v = self.expr(f.value)
            if v[1] == 'B0':
                return (f'(b2n {v[0]})', 'N0')
            if v[1] == 'B1':
                return (f'(np_astype_int1 {v[0]})', 'N1')
            fail(n, f'.astype(int) on type {v[1]}')
        if chain == ['np', 'any'] or chain == ['np', 'all']:
            if len(n.args) != 1:
                fail(n, 'np.any / np.all need one positional argument')
            v = self.expr(n.args[0])
            ax = self.axes(n, n)
            if v[1] == 'B1' and ax == [1]:
                return (f'(np_{chain[1]}1 {v[0]})', 'B0')
            fail(n, f'np.{chain[1]} over axes {ax} of type {v[1]} not supported')
        if chain == ['np', 'ones']:
            if len(n.args) == 1 and attr_chain(n.args[0]) == ['state_space', 'k'] and not n.keywords:
                return ('(o1 OP)', 'T')
            fail(n, 'np.ones is supported as np.ones(state_space.k) only')
        if chain == ['np', 'array']:
            if len(n.args) == 1 and isinstance(n.args[0], ast.List) and not n.keywords:
                return ('[' + '; '.join(self.to_Z(self.expr(e)) for e in n.args[0].elts) + ']', 'ZL')
            fail(n, 'np.array is supported on a list of integers only')
        if chain in (['np', 'sum'], ['np', 'prod']):
            if len(n.args) != 1 or self.axes(n, n) != [0] or not isinstance(n.args[0], ast.ListComp):
                fail(n, 'np.sum / np.prod are supported over a list comprehension with axis=0 only')
            return self.listcomp(n.args[0], chain[1])
        # self._get_indices(state_space)
        if chain and chain[0] == 'self' and len(chain) == 2 and len(n.args) == 1 and is_name(n.args[0], 'state_space') and not n.keywords:
            owner, m = self.mod.method(self.cname, chain[1])
            if m is None or chain[1] == '_get':
                fail(n, f'unknown method self.{chain[1]}')
            self.used.add(('helper', owner, chain[1]))
            return (f'({owner}{chain[1]} lineage_config_n locus_config_n {{ATTRS:{owner}}})', 'ZL')
        # state_space.lineage_config.pop_names.index(self.pop)
        if chain == ['state_space', 'lineage_config', 'pop_names', 'index']:
            if len(n.args) == 1 and attr_chain(n.args[0]) == ['self', 'pop'] and self.attrs.get('pop') == 'pop' and not n.keywords:
                self.used.add('self_pop')
                return ('self_pop', 'N0')
            fail(n, 'pop_names.index is supported for self.pop only')
        # Class(args)._get(state_space)
        if (isinstance(f, ast.Attribute) and f.attr == '_get' and isinstance(f.value, ast.Call) and isinstance(f.value.func, ast.Name)
                and f.value.func.id in CTOR and len(n.args) == 1 and is_name(n.args[0], 'state_space') and not n.keywords):
            cname = f.value.func.id
            fields = CTOR[cname][1]
            if f.value.keywords or len(f.value.args) != len(fields) or 'rewards' in fields or 'pop' in fields:
                fail(n, f'constructor call {ast.unparse(f.value)} not supported')
            args = [self.nat_of(a, self.expr(a)) for a in f.value.args]
            self.support.append(f'({cname}_get_supported k)')
            a = ' '.join(args)
            return (f'({cname}_get_value lineage_config_n locus_config_n {a} s)'.replace('  ', ' '), 'T')
        fail(n, 'call not supported: ' + ast.unparse(n)[:80])

    def listcomp(self, lc, kind):
        if len(lc.generators) != 1:
            fail(lc, 'one generator per comprehension')
        g = lc.generators[0]
        if g.ifs or g.is_async or not isinstance(g.target, ast.Name):
            fail(lc, 'comprehension filters / tuple targets not supported')
        var = g.target.id
        it = g.iter
        # [r._get(state_space) for r in self.rewards]
        if attr_chain(it) == ['self', 'rewards'] and self.attrs.get('rewards') == 'rewards':
            e = lc.elt
            if (isinstance(e, ast.Call) and attr_chain(e.func) == [var, '_get'] and len(e.args) == 1
                    and is_name(e.args[0], 'state_space') and not e.keywords):
                self.used.add('self_rewards_get')
                return (f'({"osum" if kind == "sum" else "oprod"} OP self_rewards_get)', 'T')
            fail(lc, 'comprehension over self.rewards must be [r._get(state_space) for r in self.rewards]')
        if isinstance(it, ast.Call) and is_name(it.func, 'range') and len(it.args) == 1 and not it.keywords:
            bound = self.nat_of(it, self.expr(it.args[0]))
            if var in self.env:
                fail(lc, f'comprehension variable {var} shadows a local')
            self.env[var] = (var, 'N0')
            elt = self.expr(lc.elt)
            del self.env[var]
            if elt[1] == 'N0' and kind == 'sum':
                return (f'(sum_nat (map (fun {var} : nat => {elt[0]}) (seq 0 {bound})))', 'N0')
            if elt[1] == 'T':
                return (f'({"osum" if kind == "sum" else "oprod"} OP (map (fun {var} : nat => {elt[0]}) (seq 0 {bound})))', 'T')
            fail(lc, f'np.{kind} over elements of type {elt[1]} not supported')
        fail(lc, 'comprehension iterable not supported')

    # -- statements: returns the coq term of the value returned
    def block(self, stmts, lets):
        for i, s in enumerate(stmts):
            if is_doc(s):
                continue
            if isinstance(s, ast.Return) and s.value is not None:
                return self.wrap(lets, s.value)
            if isinstance(s, ast.AnnAssign) and isinstance(s.target, ast.Name) and s.value is not None:
                tgt, val = s.target.id, s.value
            elif isinstance(s, ast.Assign) and len(s.targets) == 1 and isinstance(s.targets[0], ast.Name):
                tgt, val = s.targets[0].id, s.value
            elif (isinstance(s, ast.Assign) and len(s.targets) == 1 and isinstance(s.targets[0], ast.Subscript)
                  and isinstance(s.targets[0].value, ast.Name)):
                # x[x < c] = 0
                t = s.targets[0]
                name = t.value.id
                m = t.slice
                if (name in self.env and self.env[name][1] == 'N0' and isinstance(m, ast.Compare) and len(m.ops) == 1
                        and isinstance(m.ops[0], ast.Lt) and is_name(m.left, name)
                        and isinstance(s.value, ast.Constant) and s.value.value == 0):
                    c = self.nat_of(m, self.expr(m.comparators[0]))
                    lets.append((name, f'(np_mask_lt0 {name} {c})'))
                    continue
                fail(s, 'masked assignment is supported as x[x < c] = 0 on a per-state scalar only')
            elif isinstance(s, ast.If) and not s.orelse:
                # if cond: return a  ; rest
                cond = self.expr(s.test)
                if cond[1] != 'B0':
                    fail(s, 'condition must be a boolean scalar')
                a = Fn.block(self, s.body, [])
                b = Fn.block(self, stmts[i + 1:], [])
                if a[1] != b[1]:
                    fail(s, 'branches return different types')
                return self.letwrap(lets, (f'(if {cond[0]} then {a[0]} else {b[0]})', a[1]))
            else:
                fail(s, f'statement {type(s).__name__} not supported')
            if tgt in ('s', 'k', 'OP', 'T') or tgt.startswith('self_'):
                fail(s, f'local name {tgt} is reserved')
            v = self.expr(val)
            self.env[tgt] = (tgt, v[1])
            lets.append((tgt, v[0]))
        fail(stmts[-1] if stmts else None, 'block does not end with a return')

    def letwrap(self, lets, e):
        c = e[0]
        for name, val in reversed(lets):
            c = f'(let {name} := {val} in {c})'
        return (c, e[1])

    def wrap(self, lets, valnode):
        return self.letwrap(lets, self.expr(valnode))


def is_isinstance_guard(test):
    """isinstance(state_space, X) or isinstance(state_space, (X, Y)) -> coq bool over k"""
    if not (isinstance(test, ast.Call) and is_name(test.func, 'isinstance') and len(test.args) == 2
            and is_name(test.args[0], 'state_space') and not test.keywords):
        return None
    t = test.args[1]
    names = [t] if isinstance(t, ast.Name) else (list(t.elts) if isinstance(t, ast.Tuple) else None)
    if names is None or not all(isinstance(x, ast.Name) for x in names):
        return None
    terms = []
    for x in names:
        if x.id == 'LineageCountingStateSpace':
            terms.append('(is_lc k)')
        elif x.id == 'BlockCountingStateSpace':
            terms.append('(is_bc k)')
        else:
            return None
    out = terms[0]
    for t2 in terms[1:]:
        out = f'(orb {out} {t2})'
    return out


def init_attrs(mod, cname):
    """attributes stored by the (inherited) __init__: {name: 'nat' | 'pop' | 'rewards'}, and the guards"""
    owner, f = mod.method(cname, '__init__')
    if f is None:
        return {}, [], None
    a = f.args
    if a.vararg or a.kwarg or a.kwonlyargs or a.posonlyargs or a.defaults or not a.args or a.args[0].arg != 'self':
        fail(f, f'{cname}.__init__: unusual signature')
    params = {}
    for p in a.args[1:]:
        ann = ast.unparse(p.annotation) if p.annotation is not None else None
        if ann == 'int':
            params[p.arg] = 'int'
        elif ann == 'str':
            params[p.arg] = 'pop'
        elif ann == 'List[Reward]':
            params[p.arg] = 'rewards'
        else:
            fail(p, f'{cname}.__init__: unsupported parameter annotation {ann}')
    attrs, guards = {}, []
    for s in f.body:
        if is_doc(s):
            continue
        if isinstance(s, ast.If) and not s.orelse and len(s.body) == 1 and isinstance(s.body[0], ast.Raise):
            exc = s.body[0].exc
            if not (isinstance(exc, ast.Call) and is_name(exc.func, 'ValueError')):
                fail(s, 'constructor guards must raise ValueError')
            t = s.test
            if (isinstance(t, ast.Compare) and len(t.ops) == 1 and isinstance(t.ops[0], ast.Lt) and isinstance(t.left, ast.Name)
                    and params.get(t.left.id) == 'int' and isinstance(t.comparators[0], ast.Constant)
                    and isinstance(t.comparators[0].value, int)):
                guards.append((t.left.id, f'(Z.ltb {t.left.id} ({t.comparators[0].value})%Z)'))
                continue
            fail(s, 'constructor guard not supported')
        tgt = val = None
        if isinstance(s, ast.AnnAssign):
            tgt, val = s.target, s.value
        elif isinstance(s, ast.Assign) and len(s.targets) == 1:
            tgt, val = s.targets[0], s.value
        if tgt is None or attr_chain(tgt) is None or attr_chain(tgt)[0] != 'self' or len(attr_chain(tgt)) != 2:
            fail(s, f'{cname}.__init__: statement not supported')
        name = attr_chain(tgt)[1]
        if isinstance(val, ast.Call) and is_name(val.func, 'int') and len(val.args) == 1 and isinstance(val.args[0], ast.Name) \
                and params.get(val.args[0].id) == 'int':
            src = val.args[0].id
            kind = 'nat'
        elif isinstance(val, ast.Name) and params.get(val.id) in ('pop', 'rewards'):
            src = val.id
            kind = params[val.id]
        else:
            fail(s, f'{cname}.__init__: stored value not supported: {ast.unparse(val)}')
        if name != src:
            fail(s, f'{cname}.__init__: attribute self.{name} must store the parameter of the same name')
        attrs[name] = kind
    return attrs, guards, owner


HEADER = '''(* GENERATED FILE - DO NOT EDIT.  Regenerated on every run of the checks that use reward vectors by
   /verif/translate/rewards2coq.py (Python `ast`, fail-closed) from phasegen/rewards.py.
   The equivalence with the hand-written model model/Rewards.v is proved in proofs/GenRewardsEquiv.v.

   Translated: %s.
   NOT translated: CombinedReward.__init__ (left to the differential test against combine_loop of model/Rewards.v),
   CustomReward (a user function), __hash__ / __eq__.

   Conventions: every `_get` is translated as a function of ONE state s (the state axis 0 of
   `state_space.lineages` is pointwise in the source - checked by the translator; gen/NpState.v gives the meaning of
   the NumPy operations on the remaining axes [locus][deme][block]).  X_get_supported k is the condition under which
   the source returns instead of raising NotImplementedError for a state space of kind k (lineage- or block-counting);
   X_get_value is the value returned.  `state_space.lineage_config.n` / `state_space.locus_config.n` are the parameters
   lineage_config_n / locus_config_n; `self.x` is the parameter self_x; `pop_names.index(self.pop)` of the state
   space's lineage configuration is the parameter self_pop (position of the population on the deme axis of the
   states); integer results are injected with oofN, `/` is odiv; int - int is computed in Z; sub-rewards of a
   composite reward enter as the list self_rewards_get of their values at s; np.sum / np.prod over a Python list are
   osum / oprod (right-nested, as in the hand-written model). *)
From Coq Require Import ZArith List Arith Bool.
From PG Require Import base.Ops model.CoalModels model.StateSpace model.Rewards gen.NpState.
Import ListNotations.
Local Open Scope nat_scope.

Inductive sskind : Type := SS_LC | SS_BC.
Definition is_lc (k : sskind) : bool := match k with SS_LC => true | SS_BC => false end.
Definition is_bc (k : sskind) : bool := match k with SS_BC => true | SS_LC => false end.
'''


def translate(src_text):
    mod = Module(ast.parse(src_text))
    out, funcs = [], []
    # class hierarchy facts used by Reward.supports
    owner, sup = mod.method('Reward', 'supports')
    check_supports(sup)
    owner, csup = mod.method('CompositeReward', 'supports')
    check_composite_supports(csup)
    for c in CTOR:
        o, m = mod.method(c, 'supports')
        want = 'CompositeReward' if 'rewards' in CTOR[c][1] else 'Reward'
        if o != want:
            raise Unsupported(f'{c}.supports is inherited from {o}, expected {want}')
    out.append('(* ---- constructor guards: true = the constructor raises ValueError ---- *)')
    all_attrs = {}
    for c in CTOR:
        attrs, guards, init_owner = init_attrs(mod, c)
        if sorted(attrs) != sorted(CTOR[c][1]):
            raise Unsupported(f'{c}: __init__ stores {sorted(attrs)}, the model constructor {CTOR[c][0]} carries {CTOR[c][1]}')
        all_attrs[c] = attrs
        if guards:
            params = sorted({g[0] for g in guards})
            body = guards[0][1]
            for g in guards[1:]:
                body = f'(orb {body} {g[1]})'
            out.append(f'Definition {c}_init_raises ' + ' '.join(f'({p} : Z)' for p in params) + f' : bool :=\n  {body}.')
            funcs.append(f'{c}.__init__')
    out.append('')
    out.append('Section Gen.\n  Context {T : Type} (OP : Ops T).\n')

    def attr_params(c):
        ps = []
        for a in CTOR[c][1]:
            kind = all_attrs[c][a]
            ps.append({'nat': f'(self_{a} : nat)', 'pop': '(self_pop : nat)', 'rewards': '(self_rewards_get : list T)'}[kind])
        return ps

    def attr_args(c):
        return ' '.join({'nat': f'self_{a}', 'pop': 'self_pop', 'rewards': 'self_rewards_get'}[all_attrs[c][a]] for a in CTOR[c][1])

    emitted_helpers = set()
    done = set()

    def emit_class(c):
        if c in done:
            return
        owner, g = mod.method(c, '_get')
        if g is None or owner in ABSTRACT:
            raise Unsupported(f'{c} has no concrete _get')
        a = g.args
        if a.vararg or a.kwarg or a.kwonlyargs or a.posonlyargs or a.defaults or [p.arg for p in a.args] != ['self', 'state_space']:
            fail(g, f'{c}._get: unusual signature')
        body = [s for s in g.body if not is_doc(s)]
        fn = Fn(mod, c, all_attrs[c])
        guard = 'true'
        if (len(body) == 2 and isinstance(body[0], ast.If) and not body[0].orelse and isinstance(body[1], ast.Raise)):
            gd = is_isinstance_guard(body[0].test)
            exc = body[1].exc
            if gd is None or not (isinstance(exc, ast.Call) and is_name(exc.func, 'NotImplementedError')):
                fail(body[0], f'{c}._get: the guard must be isinstance(state_space, ...) followed by raise NotImplementedError')
            guard = gd
            val = fn.block(body[0].body, [])
        else:
            val = fn.block(body, [])
        # dependencies first
        for u in list(fn.used):
            if isinstance(u, tuple) and u[0] == 'helper':
                emit_helper(u[1], u[2])
        for dep in [x for x in CTOR if f'({x}_get_supported k)' in fn.support]:
            if dep == c:
                fail(g, f'{c}._get calls itself')
            emit_class(dep)
        term = val[0]
        for h in CTOR:
            term = term.replace('{ATTRS:' + h + '}', attr_args(h))
        for h in ABSTRACT:
            term = term.replace('{ATTRS:' + h + '}', attr_args(c))
        if val[1] == 'N0':
            term = f'(oofN OP {term})'
        elif val[1] != 'T':
            fail(g, f'{c}._get returns a value of type {val[1]}')
        sup_term = guard
        for t in fn.support:
            sup_term = f'(andb {sup_term} {t})'
        ps = ' '.join(attr_params(c))
        out.append(f'  (* {owner}._get' + (f' (inherited by {c})' if owner != c else '') + ' *)')
        out.append(f'  Definition {c}_get_supported (k : sskind) : bool :=\n    {sup_term}.')
        out.append(f'  Definition {c}_get_value (lineage_config_n locus_config_n : nat) {ps} (s : state) : T :=\n    {term}.\n'.replace('  (s : state)', ' (s : state)'))
        funcs.append(f'{c}._get')
        done.add(c)

    def emit_helper(owner, name):
        if (owner, name) in emitted_helpers:
            return
        _, m = mod.method(owner, name)
        a = m.args
        if [p.arg for p in a.args] != ['self', 'state_space'] or a.vararg or a.kwarg or a.defaults:
            fail(m, f'{owner}.{name}: unusual signature')
        users = [c for c in CTOR if owner in mod.mro(c)]
        fn = Fn(mod, owner, all_attrs[users[0]])
        val = fn.block([s for s in m.body if not is_doc(s)], [])
        if val[1] != 'ZL':
            fail(m, f'{owner}.{name} must return an index array')
        ps = ' '.join(attr_params(users[0]))
        out.append(f'  (* {owner}.{name} *)')
        out.append(f'  Definition {owner}{name} (lineage_config_n locus_config_n : nat) {ps} : list Z :=\n    {val[0]}.\n')
        funcs.append(f'{owner}.{name}')
        emitted_helpers.add((owner, name))

    for c in CTOR:
        emit_class(c)

    # dispatch over the inductive type of the model
    out.append('  (* dispatch: the reward vector entry of reward r at state s *)')
    out.append('  Fixpoint gen_reward_get (lineage_config_n locus_config_n : nat) (r : reward) (s : state) : T :=\n    match r with')
    for c, (ctor, fields) in CTOR.items():
        if 'rewards' in fields:
            out.append(f'    | {ctor} rs => {c}_get_value lineage_config_n locus_config_n (map (fun r\' => gen_reward_get lineage_config_n locus_config_n r\' s) rs) s')
        else:
            vs = ' '.join('x' + str(i) for i in range(len(fields)))
            out.append(f'    | {ctor}{" " + vs if vs else ""} => {c}_get_value lineage_config_n locus_config_n{" " + vs if vs else ""} s')
    out.append('    end.\n')
    out.append('  Fixpoint gen_get_supported (k : sskind) (r : reward) : bool :=\n    match r with')
    for c, (ctor, fields) in CTOR.items():
        if 'rewards' in fields:
            out.append(f'    | {ctor} rs => andb ({c}_get_supported k) (forallb (gen_get_supported k) rs)')
        else:
            out.append(f'    | {ctor}{" _" * len(fields)} => {c}_get_supported k')
    out.append('    end.')
    out.append('End Gen.\n')
    # supports: class hierarchy
    out.append('(* Reward.supports / CompositeReward.supports: isinstance(self, LineageCountingReward / BlockCountingReward) from the\n   class hierarchy of the source (C3 linearisation) *)')
    for kind, base in (('lc', 'LineageCountingReward'), ('bc', 'BlockCountingReward')):
        out.append(f'Fixpoint gen_supports_{kind} (r : reward) : bool :=\n  match r with')
        for c, (ctor, fields) in CTOR.items():
            if 'rewards' in fields:
                out.append(f'  | {ctor} rs => forallb gen_supports_{kind} rs')
            else:
                out.append(f'  | {ctor}{" _" * len(fields)} => {"true" if base in mod.mro(c) else "false"}')
        out.append('  end.')
    funcs += ['Reward.supports', 'CompositeReward.supports']
    text = HEADER % ', '.join(funcs) + '\n' + '\n'.join(out) + '\n'
    return text, funcs


def check_supports(f):
    """Reward.supports must be: if ss is LC: return isinstance(self, LineageCountingReward); if ss is BC: return isinstance(self, BlockCountingReward)"""
    want = ("if state_space is LineageCountingStateSpace:\n    return isinstance(self, LineageCountingReward)\n"
            "if state_space is BlockCountingStateSpace:\n    return isinstance(self, BlockCountingReward)")
    got = '\n'.join(ast.unparse(s) for s in f.body if not is_doc(s))
    if got != want:
        fail(f, 'Reward.supports has an unexpected body:\n' + got)


def check_composite_supports(f):
    want = 'return all([reward.supports(state_space) for reward in self.rewards])'
    got = '\n'.join(ast.unparse(s) for s in f.body if not is_doc(s))
    if got != want:
        fail(f, 'CompositeReward.supports has an unexpected body:\n' + got)


def main():
    ap = argparse.ArgumentParser()
    ap.add_argument('--src', default=SRC_DEFAULT)
    ap.add_argument('--out', default=None)
    ap.add_argument('--check', action='store_true', help='compare with the committed generated file')
    a = ap.parse_args()
    try:
        text, funcs = translate(open(a.src).read())
    except Unsupported as e:
        print('UNSUPPORTED:', e, file=sys.stderr)
        sys.exit(2)
    if a.check:
        old = open(a.out or OUT_DEFAULT).read()
        if old != text:
            sys.stdout.writelines(difflib.unified_diff(old.splitlines(1), text.splitlines(1), 'committed', 'current'))
            sys.exit(1)
        sys.exit(0)
    if a.out:
        open(a.out, 'w').write(text)
    else:
        sys.stdout.write(text)


if __name__ == '__main__':
    main()
