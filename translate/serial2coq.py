#!/venv/bin/python
"""serial2coq - fail-closed PIN of the serialisation code: phasegen/serialization.py (Serializable.to_json / from_json / to_file /
from_file), Coalescent.__getstate__ / __setstate__ / to_json (phasegen/distributions.py) and Inference.__getstate__ / __setstate__
(phasegen/inference.py), with model/Serial.v as their Gallina reading:

    to_json    deep copy, drop the rate-matrix caches of the COPY, encode everything else with jsonpickle (keys=True); the original is
               not touched                                  = Serial.to_json (enc of the configuration and the dropped caches)
    from_json  jsonpickle.decode(keys=True)                 = Serial.from_json
    Inference  the state is a deep copy of __dict__ without the two shared state spaces, the three callables replaced by their dill
               pickles; __setstate__ restores the dictionary and unpickles the callables: EVERYTHING else (x0 whether sampled or given,
               the random generator, results, bootstraps) is part of the serialised configuration

The bodies are compared statement by statement with the expected text, and Inference must not define to_json / from_json / to_file /
from_file of its own (a rewrite - harmless or not - fails closed).  Trusted: that the expected text has this reading; the codec
(jsonpickle, dill) is the section variable of model/Serial.v with the round-trip contract."""
import argparse
import ast
import sys

SRC_DEFAULT = '/repo/phasegen'
OUT_DEFAULT = '/verif/coq/theories/gen/SerialGen.v'


class Unsupported(Exception):
    pass


def is_doc(s):
    if isinstance(s, ast.Pass):
        return True
    return isinstance(s, ast.Expr) and isinstance(s.value, ast.Constant) and isinstance(s.value.value, str)


def get_method(tree, cname, mname):
    for c in tree.body:
        if isinstance(c, ast.ClassDef) and c.name == cname:
            fs = [s for s in c.body if isinstance(s, ast.FunctionDef) and s.name == mname]
            if len(fs) == 1:
                return fs[0]
    raise Unsupported(f'{cname}.{mname}: expected exactly one definition')


def texts(f):
    return [' '.join(ast.unparse(s).split()) for s in f.body if not is_doc(s)]


def pin(tree, cname, mname, want, deco=None):
    f = get_method(tree, cname, mname)
    got = texts(f)
    want = [' '.join(w.split()) for w in want]
    if got != want:
        raise Unsupported(f'{cname}.{mname}: unexpected body:\n' + '\n'.join('  ' + repr(x) for x in got))
    if deco is not None and sorted(ast.unparse(d) for d in f.decorator_list) != deco:
        raise Unsupported(f'{cname}.{mname}: unexpected decorators')


TEXT = '''(* GENERATED FILE - DO NOT EDIT.  Regenerated on every run of the checks that depend on serialisation by
   /verif/translate/serial2coq.py (Python `ast`, fail-closed PIN of the method bodies) from phasegen/serialization.py,
   phasegen/distributions.py (Coalescent) and phasegen/inference.py (Inference).  The reading of the pinned text IS model/Serial.v;
   proofs/GenSerialEquiv.v restates its theorems under the names of the source. *)
From Coq Require Import List.
From PG Require Import model.Serial.
Import ListNotations.

Section Gen.
  Variables Config Caches Json : Type.
  Variable drop : Caches -> Caches.
  Variable enc : Config * Caches -> Json.
  Variable dec : Json -> option (Config * Caches).
  (* Coalescent.to_json / Serializable.to_json on a deep copy whose caches were dropped *)
  Definition Coalescent_to_json (o : obj Config Caches) : obj Config Caches * Json := to_json Config Caches Json drop enc o.
  (* Serializable.from_json *)
  Definition Serializable_from_json (j : Json) : option (obj Config Caches) := from_json Config Caches Json dec j.
  (* n save / load cycles *)
  Definition save_load_cycles (n : nat) (o : obj Config Caches) : option (obj Config Caches) := cycles Config Caches Json drop enc dec n o.
End Gen.
'''


def no_method(tree, cname, mname):
    for c in tree.body:
        if isinstance(c, ast.ClassDef) and c.name == cname:
            if any(isinstance(s, ast.FunctionDef) and s.name == mname for s in c.body):
                raise Unsupported(f'{cname}.{mname}: unexpected definition')
            return
    raise Unsupported(f'class {cname} not found')


def translate(src_text):
    import os
    if not os.path.isdir(src_text):
        raise Unsupported('expected the phasegen directory')
    ts = ast.parse(open(os.path.join(src_text, 'serialization.py')).read())
    td = ast.parse(open(os.path.join(src_text, 'distributions.py')).read())
    ti = ast.parse(open(os.path.join(src_text, 'inference.py')).read())
    pin(ts, 'Serializable', 'to_file', ["with open(file, 'w') as fh: fh.write(self.to_json())"], deco=[])
    pin(ts, 'Serializable', 'to_json', ['return jsonpickle.encode(self, indent=4, warn=True, keys=True)'], deco=[])
    pin(ts, 'Serializable', 'from_json', ['return jsonpickle.decode(json, classes=classes, keys=True)'], deco=['classmethod'])
    pin(ts, 'Serializable', 'from_file', ["with open(file, 'r') as fh: return cls.from_json(fh.read(), classes)"], deco=['classmethod'])
    pin(td, 'Coalescent', '__setstate__', ['self.__dict__.update(state)'], deco=[])
    pin(td, 'Coalescent', '__getstate__',
        ['other = copy.deepcopy(self.__dict__)',
         "if 'lineage_counting_state_space' in other: other['lineage_counting_state_space'].drop_cache()",
         "if 'block_counting_state_space' in other: other['block_counting_state_space'].drop_cache()", 'return other'], deco=[])
    pin(td, 'Coalescent', 'to_json', ['other = copy.deepcopy(self)', 'other.drop_cache()', 'return super(self.__class__, other).to_json()'], deco=[])
    pin(ti, 'Inference', '__getstate__',
        ['state = copy.deepcopy(self.__dict__)',
         "for key in ['_lineage_counting_state_space', '_block_counting_state_space']: state.pop(key, None)",
         "for key in ['coal', 'loss', 'resample']: state[f'{key}_pickled'] = dill.dumps(state[key]) state.pop(key)", 'return state'], deco=[])
    pin(ti, 'Inference', '__setstate__',
        ['self.__dict__.update(state)',
         "for key in ['coal', 'loss', 'resample']: setattr(self, key, dill.loads(state[f'{key}_pickled'])) self.__dict__.pop(f'{key}_pickled')"],
        deco=[])
    for m in ('to_json', 'from_json', 'to_file', 'from_file'):
        no_method(ti, 'Inference', m)
    return TEXT, ['Serializable.*', 'Coalescent.__getstate__/__setstate__/to_json', 'Inference.__getstate__/__setstate__']


def main():
    ap = argparse.ArgumentParser()
    ap.add_argument('--src', default=SRC_DEFAULT)
    ap.add_argument('--out', default=None)
    a = ap.parse_args()
    try:
        text, funcs = translate(a.src)
    except Unsupported as e:
        print('UNSUPPORTED:', e, file=sys.stderr)
        sys.exit(2)
    if a.out:
        open(a.out, 'w').write(text)
    else:
        sys.stdout.write(text)


if __name__ == '__main__':
    main()
