#!/venv/bin/python
"""configs2coq - fail-closed translator of the sample / locus configuration classes to Gallina:

    phasegen/locus.py      LocusConfig.__init__ (ordered guards -> verdict; stored attributes), _get_initial_states, __eq__
    phasegen/lineage.py    LineageConfig.__init__ (the three container forms), _get_initial_states, __eq__ (through lineage_dict)
    phasegen/state_space.py  StateSpace.alpha (product of the two indicator vectors, normalised)
    phasegen/distributions.py AbstractCoalescent.__init__ (the part that completes the sample configuration and the demography with each
                             other's populations; compared with the expected text)
    phasegen/demography.py   Epoch.__init__ (copies, sorted names, zero-filled migration rates), Epoch.__eq__ / __hash__ (the key
                             equality of the state-space cache), Epoch.tau

Reading of the source (trusted base of this translator):
  * `s.lineages` / `s.linked` have shape (k, L, D, B): state, locus, deme, block; `_get_initial_states` treats axis 0 (the state)
    pointwise (never reduced, indexed only by `:`), so it is translated to a function of ONE state whose arrays are `lin s` and
    `lnk s` ([locus][deme][block], gen/NpState.v + gen/NpConfigs.v give the meaning of each NumPy operation; NumPy axis a is axis
    a-1 there); `np.ones(s.k)` is 1 for every state; a comparison with a vector broadcasts along the LAST axis (NumPy raises when
    the lengths differ and none is 1: modelled as `false`, excluded by the hypotheses of the theorems);
  * Python integers are Z (so `max(a - b, 0)` is meaningful), counts of lineages are natural numbers injected into Z;
    `int(x)` of an integer is the identity; a `float` argument is an exact rational;
  * `if cond: raise E(...)` statements at the head of a constructor are its guards, evaluated in order: the first whose condition
    holds decides the verdict (ValueErr / NotImpl), otherwise Ok; the attribute stores that follow are compared with the expected
    table (attribute -> argument), so an additional derived attribute fails closed;
  * `isinstance(n, dict)` / `isinstance(n, Iterable)` / else select the constructor of the argument's sum type
    (NDict / NIter / NScalar); `{k: int(v) for k, v in n.items()}`, `{f"pop_{i}": int(n) for i, n in enumerate(n)}` and
    `dict(pop_0=int(n))` are association lists in insertion order; `f"pop_{i}"` is pop_name i;
  * an Epoch is read by VALUE: `pop_sizes.copy()` / `migration_rates.copy()` (compared textually) make the epoch own its dictionaries;
    dictionaries are association lists in insertion order, `tuple(d.items()) == tuple(d'.items())` is equality of these lists (same
    keys in the same order, values compared as numbers), `float == float` is equality of rationals;
  * in StateSpace.alpha the two method calls are the per-state functions applied to every state of `self.states`, `a * b` of two
    integer vectors is the elementwise product, `alpha / alpha.sum()` divides every entry (injected into the field) by the sum.
"""
import argparse
import ast
import os
import sys

SRC_DEFAULT = '/repo/phasegen'
OUT_DEFAULT = '/verif/coq/theories/gen/ConfigsGen.v'


class Unsupported(Exception):
    pass


def fail(node, msg):
    raise Unsupported(f'line {getattr(node, "lineno", "?")}: {msg}')


def is_doc(s):
    """statements without effect on the translated value: docstrings, `pass`, and pure logging calls"""
    if isinstance(s, ast.Pass):
        return True
    if isinstance(s, ast.Expr) and isinstance(s.value, ast.Constant) and isinstance(s.value.value, str):
        return True
    if isinstance(s, ast.Expr) and isinstance(s.value, ast.Call):
        f, parts = s.value.func, []
        while isinstance(f, ast.Attribute):
            parts.append(f.attr)
            f = f.value
        if isinstance(f, ast.Name):
            parts.append(f.id)
            parts = parts[::-1]
            is_log = (parts[:2] == ['self', '_logger'] or parts[0] in ('logger', 'logging') or parts == ['warnings', 'warn']) and len(parts) >= 2
            if is_log and parts[-1] in ('debug', 'info', 'warning', 'error', 'critical', 'warn', 'log'):
                inner = [n for a in list(s.value.args) + [k.value for k in s.value.keywords] for n in ast.walk(a)]
                if not any(isinstance(n, (ast.Call, ast.NamedExpr, ast.Yield, ast.YieldFrom, ast.Await, ast.Lambda)) for n in inner):
                    return True
    return False


def chain(n):
    out = []
    while isinstance(n, ast.Attribute):
        out.append(n.attr)
        n = n.value
    if isinstance(n, ast.Name):
        out.append(n.id)
        return '.'.join(out[::-1])
    return None


def get_class(tree, cname):
    cs = [c for c in tree.body if isinstance(c, ast.ClassDef) and c.name == cname]
    if len(cs) != 1:
        raise Unsupported(f'class {cname}: expected exactly one definition')
    return cs[0]


def get_method(cls, mname):
    fs = [s for s in cls.body if isinstance(s, ast.FunctionDef) and s.name == mname]
    if len(fs) != 1:
        raise Unsupported(f'{cls.name}.{mname}: expected exactly one definition')
    return fs[0]


def body_of(f):
    return [s for s in f.body if not is_doc(s)]


LOGGER_INIT = 'self._logger = logger.getChild(self.__class__.__name__)'


# ---------------------------------------------------------------------------------------------- per-state expressions
class PerState:
    """types: N3 N2 N1 N0 (nat arrays by per-state rank), B2 B1 B0 (bool), Z, nat"""

    def __init__(self, svar, env):
        self.s = svar
        self.env = env      # name -> (term, type)

    def axes(self, call, node):
        kw = {k.arg: k.value for k in call.keywords}
        if call.args or set(kw) != {'axis'}:
            fail(node, 'reduction must be called with axis= only')
        a = kw['axis']
        vals = [e.value for e in a.elts] if isinstance(a, ast.Tuple) else [a.value] if isinstance(a, ast.Constant) else None
        if vals is None or not all(isinstance(v, int) and v >= 1 for v in vals):
            fail(node, 'axis must be a positive integer or a tuple of them (axis 0 is the state)')
        return sorted(v - 1 for v in vals)

    def expr(self, n):
        if isinstance(n, ast.Name) and n.id in self.env:
            return self.env[n.id]
        if isinstance(n, ast.Constant) and isinstance(n.value, int) and not isinstance(n.value, bool):
            return (f'({n.value})%Z', 'Z')
        if isinstance(n, ast.Attribute):
            c = chain(n)
            if c == f'{self.s}.lineages':
                return ('(lin s)', 'N3')
            if c == f'{self.s}.linked':
                return ('(lnk s)', 'N3')
            if c in self.env:
                return self.env[c]
            fail(n, 'attribute ' + ast.unparse(n))
        if isinstance(n, ast.Subscript):
            b = self.expr(n.value)
            sl = n.slice
            if b[1] == 'N3' and isinstance(sl, ast.Tuple) and len(sl.elts) == 4:
                full = lambda e: isinstance(e, ast.Slice) and e.lower is None and e.upper is None and e.step is None
                if all(full(e) for e in sl.elts[:3]) and isinstance(sl.elts[3], ast.Constant) and isinstance(sl.elts[3].value, int):
                    return (f'(np_get3_2 {b[0]} ({sl.elts[3].value})%Z)', 'N2')
            fail(n, 'subscript ' + ast.unparse(n))
        if isinstance(n, ast.BinOp) and isinstance(n.op, ast.Sub):
            l, r = self.expr(n.left), self.expr(n.right)
            if l[1] == r[1] == 'Z':
                return (f'({l[0]} - {r[0]})%Z', 'Z')
            fail(n, f'- on {l[1]}, {r[1]}')
        if isinstance(n, ast.Compare) and len(n.ops) == 1 and isinstance(n.ops[0], ast.Eq):
            l, r = self.expr(n.left), self.expr(n.comparators[0])
            if l[1] == 'N2' and r[1] == 'N1':
                return (f'(np_eq2_row {l[0]} {r[0]})', 'B2')
            if l[1] == 'N1' and r[1] == 'Z':
                return (f'(np_eqZ1 {l[0]} {r[0]})', 'B1')
            fail(n, f'== on {l[1]}, {r[1]}')
        if isinstance(n, ast.Call):
            c = chain(n.func)
            if c == 'max' and len(n.args) == 2 and not n.keywords:
                a, b = self.expr(n.args[0]), self.expr(n.args[1])
                if a[1] == b[1] == 'Z':
                    return (f'(Z.max {a[0]} {b[0]})', 'Z')
            if c == 'np.ones' and len(n.args) == 1 and not n.keywords and chain(n.args[0]) == f'{self.s}.k':
                return ('1', 'nat')
            if isinstance(n.func, ast.Attribute):
                m, b = n.func.attr, self.expr(n.func.value)
                if m == 'sum':
                    ax = self.axes(n, n)
                    if b[1] == 'N3' and ax == [1, 2]:
                        return (f'(np_sum2_1 (np_sum3_2 {b[0]}))', 'N1')
                    fail(n, f'sum over axes {ax} of {b[1]}')
                if m == 'all':
                    ax = self.axes(n, n)
                    if b[1] == 'B2' and ax == [0, 1]:
                        return (f'(np_all2 {b[0]})', 'B0')
                    if b[1] == 'B1' and ax == [0]:
                        return (f'(np_all1 {b[0]})', 'B0')
                    fail(n, f'all over axes {ax} of {b[1]}')
                if m == 'astype' and len(n.args) == 1 and ast.unparse(n.args[0]) == 'int' and not n.keywords:
                    if b[1] == 'B0':
                        return (f'(b2n {b[0]})', 'nat')
            fail(n, 'call ' + ast.unparse(n)[:80])
        fail(n, 'expression ' + ast.unparse(n)[:80])


# ---------------------------------------------------------------------------------------------- LocusConfig
def scalar_cond(n, types):
    """comparison of an argument with an integer literal"""
    if isinstance(n, ast.Compare) and len(n.ops) == 1 and isinstance(n.left, ast.Name) and n.left.id in types and \
            isinstance(n.comparators[0], ast.Constant) and isinstance(n.comparators[0].value, int):
        x, c, ty, op = n.left.id, n.comparators[0].value, types[n.left.id], n.ops[0]
        if ty == 'Z':
            if isinstance(op, ast.Lt):
                return f'({x} <? {c})%Z'
            if isinstance(op, ast.Gt):
                return f'({c} <? {x})%Z'
            if isinstance(op, ast.LtE):
                return f'({x} <=? {c})%Z'
            if isinstance(op, ast.GtE):
                return f'({c} <=? {x})%Z'
        if ty == 'Q' and c == 0:
            if isinstance(op, ast.Lt):
                return f'(lt0 {x})'
            if isinstance(op, ast.LtE):
                return f'(le0 {x})'
    fail(n, 'guard condition ' + ast.unparse(n))


def locus_config(tree):
    cls = get_class(tree, 'LocusConfig')
    f = get_method(cls, '__init__')
    names = [a.arg for a in f.args.args]
    anns = [ast.unparse(a.annotation) if a.annotation else None for a in f.args.args]
    dfl = [ast.unparse(d) for d in f.args.defaults]
    if names != ['self', 'n', 'n_unlinked', 'recombination_rate'] or anns[1:] != ['int', 'int', 'float'] or dfl != ['1', '0', '0']:
        fail(f, 'LocusConfig.__init__: unexpected signature')
    types = {'n': 'Z', 'n_unlinked': 'Z', 'recombination_rate': 'Q'}
    body = body_of(f)
    guards, i = [], 0
    if body and ast.unparse(body[0]) == LOGGER_INIT:
        body = body[1:]
    while i < len(body) and isinstance(body[i], ast.If) and not body[i].orelse and len(body[i].body) == 1 and isinstance(body[i].body[0], ast.Raise):
        exc = body[i].body[0].exc
        ename = chain(exc.func) if isinstance(exc, ast.Call) else chain(exc)
        v = {'ValueError': 'ValueErr', 'NotImplementedError': 'NotImpl'}.get(ename)
        if v is None:
            fail(body[i], f'guard raising {ename}')
        guards.append((scalar_cond(body[i].test, types), v))
        i += 1
    stores = {}
    for s in body[i:]:
        if isinstance(s, ast.AnnAssign) and s.value is not None:
            s = ast.Assign(targets=[s.target], value=s.value, lineno=s.lineno)
        if not (isinstance(s, ast.Assign) and len(s.targets) == 1 and chain(s.targets[0]) and chain(s.targets[0]).startswith('self.')):
            fail(s, 'LocusConfig.__init__: statement after the guards that is not an attribute store: ' + ast.unparse(s)[:60])
        stores[chain(s.targets[0])[5:]] = ast.unparse(s.value)
    expected = {'n': 'int(n)', 'n_unlinked': 'int(n_unlinked)', 'recombination_rate': 'recombination_rate', '_allow_coalescence': 'True'}
    if stores != expected:
        raise Unsupported(f'LocusConfig.__init__ stores {stores}, expected {expected} (a derived attribute is not part of the model)')
    term = ''.join(f'if {c} then {v} else\n    ' for c, v in guards) + 'Ok'
    out = ['(* LocusConfig.__init__: the guards, in order *)\nDefinition LocusConfig_init_verdict (n n_unlinked : Z) (recombination_rate : Q) : verdict :=\n    ' + term + '.\n']
    # _get_initial_states
    g = get_method(cls, '_get_initial_states')
    if [a.arg for a in g.args.args] != ['self', 's']:
        fail(g, 'LocusConfig._get_initial_states: unexpected signature')
    b = body_of(g)
    if not (len(b) == 3 and isinstance(b[0], ast.If) and ast.unparse(b[0].test) == 'self.n == 1' and not b[0].orelse
            and len(body_of(b[0])) == 1 and isinstance(body_of(b[0])[0], ast.Return)
            and isinstance(b[1], ast.Assign) and len(b[1].targets) == 1 and isinstance(b[1].targets[0], ast.Name)
            and isinstance(b[2], ast.Return)):
        fail(g, 'LocusConfig._get_initial_states: unexpected statement structure')
    env = {'s.lineage_config.n': ('(Z.of_nat lc_n)', 'Z'), 'self.n_unlinked': ('self_n_unlinked', 'Z')}
    ps = PerState('s', env)
    one = ps.expr(body_of(b[0])[0].value)
    nl = ps.expr(b[1].value)
    ps.env = dict(env, **{b[1].targets[0].id: ('n_linked_1', nl[1])})
    ret = ps.expr(b[2].value)
    if one[1] != 'nat' or ret[1] != 'nat':
        fail(g, 'LocusConfig._get_initial_states must return integers')
    out.append('(* LocusConfig._get_initial_states, for ONE state; lc_n = s.lineage_config.n *)\n'
               'Definition LocusConfig_get_initial_states (self_n self_n_unlinked : Z) (lc_n : nat) (s : state) : nat :=\n'
               f'    if (self_n =? 1)%Z then {one[0]} else\n    let n_linked_1 := {nl[0]} in\n    {ret[0]}.\n')
    # __eq__
    e = get_method(cls, '__eq__')
    be = body_of(e)
    fields = None
    if len(be) == 1 and isinstance(be[0], ast.Return) and isinstance(be[0].value, ast.BoolOp) and isinstance(be[0].value.op, ast.And):
        fields = []
        for c in be[0].value.values:
            if not (isinstance(c, ast.Compare) and len(c.ops) == 1 and isinstance(c.ops[0], ast.Eq) and chain(c.left) and chain(c.comparators[0])
                    and chain(c.left).startswith('self.') and chain(c.comparators[0]) == 'other.' + chain(c.left)[5:]):
                fields = None
                break
            fields.append(chain(c.left)[5:])
    if fields != ['n', 'n_unlinked', 'recombination_rate', '_allow_coalescence']:
        fail(e, f'LocusConfig.__eq__: expected the conjunction of self.x == other.x over the four stored attributes, found {fields}')
    out.append('(* LocusConfig.__eq__ on the stored attributes (n, n_unlinked, recombination_rate, _allow_coalescence) *)\n'
               'Definition LocusConfig_eq (a b : Z * Z * Q * bool) : bool :=\n'
               "    let '(n1, u1, r1, c1) := a in let '(n2, u2, r2, c2) := b in\n"
               '    (n1 =? n2)%Z && (u1 =? u2)%Z && Qeq_bool r1 r2 && Bool.eqb c1 c2.\n')
    return out


# ---------------------------------------------------------------------------------------------- LineageConfig
def lineage_config(tree):
    cls = get_class(tree, 'LineageConfig')
    f = get_method(cls, '__init__')
    if [a.arg for a in f.args.args] != ['self', 'n']:
        fail(f, 'LineageConfig.__init__: unexpected signature')
    body = body_of(f)
    if body and ast.unparse(body[0]) == LOGGER_INIT:
        body = body[1:]
    if not (len(body) == 5 and isinstance(body[0], ast.If)):
        fail(f, 'LineageConfig.__init__: unexpected statement structure')
    br = body[0]
    t1 = ast.unparse(br.test)
    if t1 != 'isinstance(n, dict)' or len(br.orelse) != 1 or not isinstance(br.orelse[0], ast.If) or \
            ast.unparse(br.orelse[0].test) != 'isinstance(n, Iterable)':
        fail(br, 'LineageConfig.__init__: the argument must be dispatched by isinstance(n, dict) / isinstance(n, Iterable) / else')
    forms = {'NDict': body_of(br), 'NIter': body_of(br.orelse[0]), 'NScalar': [s for s in br.orelse[0].orelse if not is_doc(s)]}
    texts = {k: [ast.unparse(s) for s in v] for k, v in forms.items()}
    want = {'NDict': ['n_lineages = {k: int(v) for k, v in n.items()}'],
            'NIter': ["n_lineages = {f'pop_{i}': int(n) for i, n in enumerate(n)}"],
            'NScalar': ['n_lineages = dict(pop_0=int(n))']}
    if texts != want:
        raise Unsupported(f'LineageConfig.__init__: unexpected container handling {texts}')
    stores = {}
    for s in body[1:]:
        if isinstance(s, ast.AnnAssign) and s.value is not None:
            s = ast.Assign(targets=[s.target], value=s.value, lineno=s.lineno)
        if not (isinstance(s, ast.Assign) and len(s.targets) == 1 and chain(s.targets[0]) and chain(s.targets[0]).startswith('self.')):
            fail(s, 'LineageConfig.__init__: statement that is not an attribute store')
        stores[chain(s.targets[0])[5:]] = ast.unparse(s.value)
    expected = {'lineages': 'np.array(list(n_lineages.values()))', 'n': 'sum(list(n_lineages.values()))', 'n_pops': 'len(n_lineages)',
                'pop_names': 'list(n_lineages.keys())'}
    if stores != expected:
        raise Unsupported(f'LineageConfig.__init__ stores {stores}, expected {expected}')
    out = ['(* LineageConfig.__init__: n_lineages (association list in insertion order) for the three container forms, and the stored\n'
           '   attributes (lineages, n, n_pops, pop_names) *)\n'
           'Definition LineageConfig_n_lineages (n : n_arg) : list (string * Z) :=\n'
           '    match n with\n    | NDict d => map (fun kv => (fst kv, snd kv)) d\n'
           '    | NIter l => map (fun iv => (pop_name (fst iv), snd iv)) (combine (seq 0 (length l)) l)\n'
           '    | NScalar v => [(pop_name 0, v)]\n    end.\n'
           'Definition LineageConfig_init (n : n_arg) : list Z * Z * nat * list string :=\n'
           '    let n_lineages := LineageConfig_n_lineages n in\n'
           '    (map snd n_lineages, fold_right Z.add 0%Z (map snd n_lineages), length n_lineages, map fst n_lineages).\n']
    ld = get_method(cls, 'lineage_dict')
    if [ast.unparse(s) for s in body_of(ld)] != ['return dict(zip(self.pop_names, self.lineages))']:
        fail(ld, 'LineageConfig.lineage_dict: unexpected body')
    e = get_method(cls, '__eq__')
    if [ast.unparse(s) for s in body_of(e)] != ['return self.lineage_dict == other.lineage_dict']:
        fail(e, 'LineageConfig.__eq__: unexpected body')
    out.append('(* LineageConfig.__eq__: equality of the dictionaries name -> count (order-insensitive, names are distinct keys) *)\n'
               'Definition LineageConfig_eq (a b : list (string * Z)) : bool := dict_eqb a b.\n')
    g = get_method(cls, '_get_initial_states')
    if [a.arg for a in g.args.args] != ['self', 's']:
        fail(g, 'LineageConfig._get_initial_states: unexpected signature')
    b = body_of(g)
    if not (len(b) == 1 and isinstance(b[0], ast.Return)):
        fail(g, 'LineageConfig._get_initial_states: unexpected statement structure')
    ps = PerState('s', {'self.lineages': ('self_lineages', 'N1')})
    ret = ps.expr(b[0].value)
    if ret[1] != 'nat':
        fail(g, 'LineageConfig._get_initial_states must return integers')
    out.append('(* LineageConfig._get_initial_states, for ONE state *)\n'
               'Definition LineageConfig_get_initial_states (self_lineages : list nat) (s : state) : nat :=\n    ' + ret[0] + '.\n')
    return out



# ---------------------------------------------------------------------------------------------- Epoch
def epoch_class(tree):
    cls = get_class(tree, 'Epoch')
    f = get_method(cls, '__init__')
    names = [a.arg for a in f.args.args]
    dfl = [ast.unparse(d) for d in f.args.defaults]
    if names != ['self', 'start_time', 'end_time', 'pop_sizes', 'migration_rates'] or dfl != ['0', 'np.inf', 'None', 'None']:
        fail(f, 'Epoch.__init__: unexpected signature')
    got = [ast.unparse(s) for s in body_of(f)]
    want = ["if pop_sizes is None:\n    pop_sizes = {'pop_0': 1}", 'if migration_rates is None:\n    migration_rates = {}',
            'self.start_time: float = start_time', 'self.end_time: float = end_time', 'self.pop_sizes: Dict[str, float] = pop_sizes.copy()',
            'self.pop_names: List[str] = sorted(list(self.pop_sizes.keys()))', 'self.n_pops: int = len(self.pop_names)',
            'migration_rates = migration_rates.copy()',
            'for p in self.pop_sizes:\n    for q in self.pop_sizes:\n        if p != q and (p, q) not in migration_rates:\n            migration_rates[p, q] = 0',
            'self.migration_rates: Dict[Tuple[str, str], float] = migration_rates']
    if got != want:
        raise Unsupported('Epoch.__init__: unexpected body:\n' + '\n'.join(f'  {a!r}' for a in got))
    out = ['(* Epoch.__init__ (compared with the expected text): the epoch OWNS copies of its dictionaries; names sorted; every ordered pair of\n'
           '   distinct populations without a migration rate gets the rate 0, appended in the order of the loops *)\n'
           'Definition Epoch_init (start_time : Q) (end_time : option Q) (pop_sizes : option (list (string * Q)))\n'
           '           (migration_rates : option (list (string * string * Q))) : epoch_val :=\n'
           '    let pop_sizes := match pop_sizes with None => [("pop_0"%string, 1%Q)] | Some d => d end in\n'
           '    let migration_rates := match migration_rates with None => [] | Some d => d end in\n'
           '    let ks := map fst pop_sizes in\n'
           '    let mig := fold_left (fun m p => fold_left (fun m q =>\n'
           '                 if negb (String.eqb p q) && negb (mig_in p q m) then m ++ [((p, q), 0%Q)] else m) ks m) ks migration_rates in\n'
           '    mkEpochVal start_time end_time pop_sizes (sort_strings ks) (length ks) mig.\n']
    e = get_method(cls, '__eq__')
    be = body_of(e)
    ok = len(be) == 1 and isinstance(be[0], ast.Return) and isinstance(be[0].value, ast.BoolOp) and isinstance(be[0].value.op, ast.And)
    if ok:
        vals = [ast.unparse(v) for v in be[0].value.values]
        ok = vals == ['isinstance(other, Epoch)', 'tuple(self.pop_sizes.items()) == tuple(other.pop_sizes.items())',
                      'tuple(self.migration_rates.items()) == tuple(other.migration_rates.items())']
    if not ok:
        fail(e, 'Epoch.__eq__: expected isinstance(other, Epoch) and equality of the items of pop_sizes and of migration_rates')
    h = get_method(cls, '__hash__')
    if [ast.unparse(x) for x in body_of(h)] != ['return hash((tuple(self.pop_sizes.items()), tuple(self.migration_rates.items())))']:
        fail(h, 'Epoch.__hash__: must hash exactly what __eq__ compares')
    t = get_method(cls, 'tau')
    if [ast.unparse(x) for x in body_of(t)] != ['return self.end_time - self.start_time']:
        fail(t, 'Epoch.tau: unexpected body')
    out.append('(* Epoch.__eq__ (and __hash__, which hashes exactly the two tuples compared): start and end time take no part *)\n'
               'Definition Epoch_eq (a b : epoch_val) : bool :=\n'
               '    list_eqb (fun x y => String.eqb (fst x) (fst y) && Qeq_bool (snd x) (snd y)) (ev_sizes a) (ev_sizes b) &&\n'
               '    list_eqb (fun x y => String.eqb (fst (fst x)) (fst (fst y)) && String.eqb (snd (fst x)) (snd (fst y)) && Qeq_bool (snd x) (snd y))\n'
               '             (ev_mig a) (ev_mig b).\n')
    return out


# ---------------------------------------------------------------------------------------------- AbstractCoalescent.__init__ (completion)
def completion(tree):
    cls = get_class(tree, 'AbstractCoalescent')
    f = get_method(cls, '__init__')
    got = [ast.unparse(s) for s in body_of(f)]
    want = ['initial_sizes = {p: {0: 1} for p in self.lineage_config.pop_names if p not in demography.pop_names}',
            'if len(initial_sizes) > 0:\n    demography.add_event(PopSizeChanges(initial_sizes))',
            'unspecified_lineages = set(demography.pop_names) - set(self.lineage_config.pop_names)',
            'self.lineage_config = LineageConfig(self.lineage_config.lineage_dict | {p: 0 for p in unspecified_lineages})']
    idx = [i for i, x in enumerate(got) if x == want[0]]
    if len(idx) != 1 or got[idx[0]:idx[0] + 4] != want:
        raise Unsupported('AbstractCoalescent.__init__: the completion of populations has an unexpected text:\n' + '\n'.join('  ' + repr(x) for x in got))
    # the sample configuration must not be reassigned anywhere else after its construction
    n_assign = sum(1 for n in ast.walk(f) if isinstance(n, (ast.Assign, ast.AnnAssign, ast.AugAssign))
                   for t in (n.targets if isinstance(n, ast.Assign) else [n.target]) if chain(t) == 'self.lineage_config')
    if n_assign != 3:
        raise Unsupported(f'AbstractCoalescent.__init__: self.lineage_config is assigned {n_assign} times (expected: two constructor branches and the completion)')
    return ['(* AbstractCoalescent.__init__, completion of populations (compared with the expected text): populations of the sample that the\n'
            '   demography does not know get size 1 from time 0; populations of the demography that the sample does not name are appended to the\n'
            '   sample configuration with 0 lineages - in the iteration order of a Python set, which is the parameter `set_order` (any\n'
            '   rearrangement of the missing names) *)\n'
            'Definition Coalescent_initial_sizes (sample_names demography_names : list string) : list (string * Q) :=\n'
            '    map (fun p => (p, 1%Q)) (filter (fun p => negb (existsb (String.eqb p) demography_names)) sample_names).\n'
            'Definition Coalescent_unspecified (sample_names demography_names : list string) : list string :=\n'
            '    filter (fun p => negb (existsb (String.eqb p) sample_names)) demography_names.\n'
            'Definition Coalescent_completed_lineages (lineage_dict : list (string * Z)) (set_order : list string) : list (string * Z) :=\n'
            '    lineage_dict ++ map (fun p => (p, 0%Z)) set_order.\n']

# ---------------------------------------------------------------------------------------------- StateSpace.alpha
def alpha(tree):
    cls = get_class(tree, 'StateSpace')
    f = get_method(cls, 'alpha')
    if [ast.unparse(d) for d in f.decorator_list] != ['cached_property']:
        fail(f, 'StateSpace.alpha: expected a cached_property')
    got = [ast.unparse(s) for s in body_of(f)]
    want = ['pops = self.lineage_config._get_initial_states(self)', 'loci = self.locus_config._get_initial_states(self)',
            'alpha = pops * loci', 'return alpha / alpha.sum()']
    if got != want:
        raise Unsupported(f'StateSpace.alpha: unexpected body {got}')
    return ['(* StateSpace.alpha over the list of states *)\n'
            'Section Alpha.\n  Context {T : Type} (OP : Ops T).\n'
            '  Definition StateSpace_alpha (self_lineages : list nat) (self_n self_n_unlinked : Z) (lc_n : nat) (states : list state) : list T :=\n'
            '    let pops := map (LineageConfig_get_initial_states self_lineages) states in\n'
            '    let loci := map (LocusConfig_get_initial_states self_n self_n_unlinked lc_n) states in\n'
            '    let alpha := map (fun ab => fst ab * snd ab) (combine pops loci) in\n'
            '    map (fun a => odiv OP (oofN OP a) (oofN OP (sum_nat alpha))) alpha.\nEnd Alpha.\n']


HEADER = '''(* GENERATED FILE - DO NOT EDIT.  Regenerated on every run of the checks that depend on the configuration classes by
   /verif/translate/configs2coq.py (Python `ast`, fail-closed) from phasegen/locus.py, phasegen/lineage.py and
   phasegen/state_space.py (StateSpace.alpha) and phasegen/demography.py (class Epoch).
   The equivalence with the hand-written model (outcome of model/Validate.v; matches_config / matches_linkage / alpha_vec of
   model/StateSpace.v) is proved in proofs/GenConfigsEquiv.v.
   Reading of the source: see the docstring of the translator. *)
From Coq Require Import String.
From Coq Require Import ZArith QArith List Arith Bool.
From PG Require Import base.Ops model.CoalModels model.StateSpace model.Validate gen.NpState gen.NpConfigs.
Import ListNotations.
Local Open Scope list_scope.
Local Open Scope nat_scope.

'''


def translate(src_dir_or_text):
    """argument: the phasegen/ directory (the tie reads three files)"""
    d = src_dir_or_text
    if not os.path.isdir(d):
        d = os.path.dirname(d)
    trees = {}
    for fn in ('locus.py', 'lineage.py', 'state_space.py', 'demography.py', 'distributions.py'):
        trees[fn] = ast.parse(open(os.path.join(d, fn)).read())
    for fn, need in (('locus.py', {'np': 'numpy'}), ('lineage.py', {'np': 'numpy'})):
        imports = {}
        for s in trees[fn].body:
            if isinstance(s, ast.Import):
                for a in s.names:
                    imports[a.asname or a.name] = a.name
        for k, v in need.items():
            if imports.get(k) != v:
                raise Unsupported(f'{fn}: name {k} is not bound to module {v}')
    out = locus_config(trees['locus.py']) + lineage_config(trees['lineage.py']) + alpha(trees['state_space.py']) + epoch_class(trees['demography.py']) + completion(trees['distributions.py'])
    return HEADER + '\n'.join(out), ['LocusConfig.__init__', 'LocusConfig._get_initial_states', 'LocusConfig.__eq__', 'LineageConfig.__init__',
                                     'LineageConfig._get_initial_states', 'LineageConfig.__eq__', 'StateSpace.alpha', 'Epoch.__init__', 'Epoch.__eq__', 'Epoch.__hash__', 'AbstractCoalescent.__init__ (completion of populations)']


def main():
    ap = argparse.ArgumentParser()
    ap.add_argument('--src', default=SRC_DEFAULT)
    ap.add_argument('--out', default=None)
    a = ap.parse_args()
    try:
        text, funcs = translate(a.src)
    except Unsupported as e:
        print('UNSUPPORTED:', e, file=sys.stderr)
        sys.exit(2)
    if a.out:
        open(a.out, 'w').write(text)
    else:
        sys.stdout.write(text)


if __name__ == '__main__':
    main()
