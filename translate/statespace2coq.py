#!/venv/bin/python
"""statespace2coq - fail-closed PIN of the enumeration of the state space and of the assembly of the rate matrix in
phasegen/state_space.py, with the hand-written model functions as their Gallina reading:

    StateSpace.get_transitions      (breadth-first enumeration: sources of a level in order, a source already visited is skipped, its
                                     targets `self.transition.transit(source)` are recorded under (source, target) and merged, in
                                     first-appearance order, into the sources of the next level; stop when a level adds nothing)
                                     = bfs / get_transitions of model/StateSpace.v (the transition function itself is the
                                     `transition` tie)
    StateSpace._graph_to_matrix     (zeros, one entry per recorded transition at the positions of source and target in
                                     self.states, diagonal = minus the row sum) = rate_matrix of model/StateSpace.v
    StateSpace.e, S, k, states      (ones(k); the rate matrix; len(states) with a warning above 400; the visited list of get_transitions,
                                     stored under the current epoch when caching)
    LineageCountingStateSpace._get_initial, BlockCountingStateSpace._get_initial
                                    (all n lineages of every locus in deme 0, block 0; one block / n blocks) = initial_state
    State.__init__, __hash__, __eq__, is_absorbing, copy

The bodies are compared statement by statement with the expected text (a rewrite - harmless or not - fails closed).  What is
trusted: that the expected text has the reading above.  The warning branches (`i in [1000, ...]`, `k > 400`) only log.
State.__eq__ compares HASHES of the array bytes (read as structural equality of the two arrays; hash collisions are outside the
reading - see the hash-collision corpus of C17)."""
import argparse
import ast
import sys

SRC_DEFAULT = '/repo/phasegen/state_space.py'
OUT_DEFAULT = '/verif/coq/theories/gen/StateSpaceGen.v'


class Unsupported(Exception):
    pass


def is_doc(s):
    if isinstance(s, ast.Pass):
        return True
    return isinstance(s, ast.Expr) and isinstance(s.value, ast.Constant) and isinstance(s.value.value, str)


def get_method(tree, cname, mname):
    for c in tree.body:
        if isinstance(c, ast.ClassDef) and c.name == cname:
            fs = [s for s in c.body if isinstance(s, ast.FunctionDef) and s.name == mname]
            if len(fs) == 1:
                return fs[0]
    raise Unsupported(f'{cname}.{mname}: expected exactly one definition')


def texts(f):
    return [' '.join(ast.unparse(s).split()) for s in f.body if not is_doc(s)]


def pin(tree, cname, mname, want, deco=None):
    f = get_method(tree, cname, mname)
    got = texts(f)
    want = [' '.join(w.split()) for w in want]
    if got != want:
        raise Unsupported(f'{cname}.{mname}: unexpected body:\n' + '\n'.join('  ' + repr(x) for x in got))
    if deco is not None and sorted(ast.unparse(d) for d in f.decorator_list) != deco:
        raise Unsupported(f'{cname}.{mname}: unexpected decorators')


TEXT = '''(* GENERATED FILE - DO NOT EDIT.  Regenerated on every run of the checks that depend on the enumeration of the state space by
   /verif/translate/statespace2coq.py (Python `ast`, fail-closed PIN of the method bodies) from phasegen/state_space.py.
   The reading of the pinned text IS the hand-written model (model/StateSpace.v); proofs/GenStateSpaceEquiv.v restates the theorems
   about it under the names of the source. *)
From Coq Require Import ZArith QArith List Arith Bool.
From PG Require Import base.Ops model.CoalModels model.StateSpace model.PhaseType.
Import ListNotations.

Section Gen.
  Context {T : Type} (OP : Ops T).
  (* StateSpace.get_transitions: (visited states, transitions) or None when the fuel - a bound on the number of levels - runs out *)
  Definition StateSpace_get_transitions (P : params (T:=T)) (fuel nl nd n : nat) := get_transitions OP P fuel nl nd n.
  (* StateSpace._graph_to_matrix *)
  Definition StateSpace_graph_to_matrix (states : list state) (trans : list (state * targets (T:=T))) := rate_matrix OP states trans.
  (* StateSpace.e *)
  Definition StateSpace_e (k : nat) := ones OP k.
  (* _get_initial of the two state spaces *)
  Definition LineageCountingStateSpace_get_initial (nl nd n : nat) : state := initial_state nl nd 1 n.
  Definition BlockCountingStateSpace_get_initial (nl nd n : nat) : state := initial_state nl nd n n.
End Gen.
'''


def translate(src_text):
    tree = ast.parse(src_text)
    pin(tree, 'StateSpace', 'get_transitions',
        ['sources = [self._get_initial()]', 'transitions = {}', 'visited = []', 'i = 0',
         "while True: targets_new = {} for source in sources: if source in visited: continue targets = self.transition.transit(source) "
         "visited += [source] for target, transition in targets.items(): transitions[source, target] = transition targets_new |= targets "
         "i += 1 if i in [1000, 10000, 100000]: levels = {1000: 'slow', 10000: 'very slow', 100000: 'extremely slow'} "
         "self._logger.warning(f'State space size exceeds {i} states. Computation may be {levels[i]}.') if len(targets_new) == 0: break "
         "sources = tuple(targets_new.keys())", 'return (transitions, visited)'], deco=[])
    pin(tree, 'StateSpace', '_graph_to_matrix',
        ['S = np.zeros((self.k, self.k))', 'ordering = {s: i for i, s in enumerate(self.states)}',
         'for (source, target), transition in transitions.items(): S[ordering[source], ordering[target]] = transition[0]',
         'S[np.diag_indices_from(S)] = -np.sum(S, axis=1)', 'return S'], deco=[])
    pin(tree, 'StateSpace', 'e', ['return np.ones(self.k)'], deco=['cached_property'])
    pin(tree, 'StateSpace', 'S', ['return self._get_rate_matrix()'], deco=['cached_property'])
    pin(tree, 'StateSpace', 'k',
        ['k = len(self.states)',
         "if k > 400: self._logger.warning(f'State space is large ({k} states). Note that the computation time increases exponentially "
         "with the number of states.')", 'return k'], deco=['cached_property'])
    pin(tree, 'StateSpace', 'states',
        ['start = time.time()', 'transitions, states = self.get_transitions()', 'self.time = time.time() - start',
         'if self.cache: self._cache[self.epoch] = (transitions, states)', 'return states'], deco=['cached_property'])
    pin(tree, 'LineageCountingStateSpace', '_get_initial',
        ['data = tuple((np.zeros((self.locus_config.n, self.lineage_config.n_pops, 1), dtype=int) for _ in range(2)))',
         'data[0][:, 0, 0] = self.lineage_config.n', 'return State(data)'], deco=[])
    pin(tree, 'BlockCountingStateSpace', '_get_initial',
        ['data = tuple((np.zeros((self.locus_config.n, self.lineage_config.n_pops, self.lineage_config.n), dtype=int) for _ in range(2)))',
         'data[0][:, 0, 0] = self.lineage_config.n', 'return State(data)'], deco=[])
    pin(tree, 'State', '__init__', ['self.data: Tuple[np.ndarray, np.ndarray] = data'])
    pin(tree, 'State', '__hash__', ['return hash((self.data[0].tobytes(), self.data[1].tobytes()))'])
    pin(tree, 'State', '__eq__', ['return hash(self) == hash(other)'])
    pin(tree, 'State', 'is_absorbing', ['return np.all(self.lineages.sum(axis=(1, 2)) == 1)'])
    pin(tree, 'State', 'copy', ['return State((self.data[0].copy(), self.data[1].copy()))'])
    return TEXT, ['StateSpace.get_transitions', 'StateSpace._graph_to_matrix', 'StateSpace.e/S/k/states',
                  'LineageCountingStateSpace._get_initial', 'BlockCountingStateSpace._get_initial', 'State.*']


def main():
    ap = argparse.ArgumentParser()
    ap.add_argument('--src', default=SRC_DEFAULT)
    ap.add_argument('--out', default=None)
    a = ap.parse_args()
    try:
        text, funcs = translate(open(a.src).read())
    except Unsupported as e:
        print('UNSUPPORTED:', e, file=sys.stderr)
        sys.exit(2)
    if a.out:
        open(a.out, 'w').write(text)
    else:
        sys.stdout.write(text)


if __name__ == '__main__':
    main()
