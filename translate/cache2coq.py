#!/venv/bin/python
"""cache2coq - fail-closed translator of the mutable part of StateSpace (phasegen/state_space.py) to Gallina state transformers:

    StateSpace.__init__ (the fields the machine below reads), states, S, update_epoch, drop_S, drop_cache, _get_rate_matrix

Reading of the source (trusted base of this translator):
  * the object is the record `sspace` of model/Cache.v: self.epoch, the value of the cached property S if present, self._cache
    (a dictionary keyed by Epoch, as an association list in insertion order) and the flag self.cache; every method is a function
    from the record to the new record (and the returned value);
  * `a != b` / `a in d` / `d[a]` / `d[a] = v` on epochs use Epoch.__eq__ together with Epoch.__hash__: the parameter eqk
    (dict_in / dict_get / dict_set of gen/NpCache.v; `d[a]` is read only under a successful `a in d`);
  * `functools.cached_property`: reading the property returns the stored value when present, otherwise runs the body once and stores
    the result; `del self.S` inside `try: ... except AttributeError: pass` removes the stored value if there is one;
  * `self.get_transitions()` depends on the object only through self.epoch (the rates in force): the parameter trans_of applied
    to the current epoch; its result, the pair (transitions, states), is a value of the abstract type Tr; `self._graph_to_matrix(transitions)`
    is the parameter mat_of applied to that pair (it reads the first component and the fixed list of states);
  * timing statements (`start = time.time()`, `self.time = ...`) do not take part;
  * SCOPE check: no other method of any class of the file, and no subclass of StateSpace, assigns or deletes self.epoch, self._cache,
    self.cache or self.S, or overrides one of the translated methods (fails closed otherwise).
"""
import argparse
import ast
import sys

SRC_DEFAULT = '/repo/phasegen/state_space.py'
OUT_DEFAULT = '/verif/coq/theories/gen/CacheGen.v'
METHODS = ['states', 'S', 'update_epoch', 'drop_S', 'drop_cache', '_get_rate_matrix']
FIELDS = {'epoch', '_cache', 'cache', 'S'}


class Unsupported(Exception):
    pass


def fail(node, msg):
    raise Unsupported(f'line {getattr(node, "lineno", "?")}: {msg}')


def is_doc(s):
    """statements without effect on the translated value: docstrings, `pass`, and pure logging calls"""
    if isinstance(s, ast.Pass):
        return True
    if isinstance(s, ast.Expr) and isinstance(s.value, ast.Constant) and isinstance(s.value.value, str):
        return True
    if isinstance(s, ast.Expr) and isinstance(s.value, ast.Call):
        f, parts = s.value.func, []
        while isinstance(f, ast.Attribute):
            parts.append(f.attr)
            f = f.value
        if isinstance(f, ast.Name):
            parts.append(f.id)
            parts = parts[::-1]
            is_log = (parts[:2] == ['self', '_logger'] or parts[0] in ('logger', 'logging') or parts == ['warnings', 'warn']) and len(parts) >= 2
            if is_log and parts[-1] in ('debug', 'info', 'warning', 'error', 'critical', 'warn', 'log'):
                inner = [n for a in list(s.value.args) + [k.value for k in s.value.keywords] for n in ast.walk(a)]
                if not any(isinstance(n, (ast.Call, ast.NamedExpr, ast.Yield, ast.YieldFrom, ast.Await, ast.Lambda)) for n in inner):
                    return True
    return False


def chain(n):
    out = []
    while isinstance(n, ast.Attribute):
        out.append(n.attr)
        n = n.value
    if isinstance(n, ast.Name):
        out.append(n.id)
        return '.'.join(out[::-1])
    return None


TIMING = {'start = time.time()', 'self.time = time.time() - start'}


class Fn:
    """locals: name -> (term, type) with types Epoch, Tr, Mx, bool; the object is env['self'] (a term of type sspace)"""

    def __init__(self):
        self.n = 0
        self.skipped = []

    def fresh(self, b):
        self.n += 1
        return f'{b}_{self.n}'

    def expr(self, n, env):
        s = env['self'][0]
        c = chain(n) if isinstance(n, (ast.Attribute, ast.Name)) else None
        if c == 'self.epoch':
            return (f'(ss_epoch {s})', 'Epoch')
        if c == 'self.cache':
            return (f'(ss_flag {s})', 'bool')
        if c == 'self._cache':
            return (f'(ss_cache {s})', 'dict')
        if isinstance(n, ast.Name) and n.id in env:
            return env[n.id]
        if isinstance(n, ast.Dict) and not n.keys:
            return ('[]', 'dict')
        if isinstance(n, ast.Tuple) and len(n.elts) == 2 and all(isinstance(e, ast.Name) for e in n.elts):
            a, b = (env.get(e.id) for e in n.elts)
            if a and b and a[1] == 'Tr.1' and b[1] == 'Tr.2' and a[0] == b[0]:
                return (a[0], 'Tr')
        if isinstance(n, ast.Subscript):
            d, k = self.expr(n.value, env), self.expr(n.slice, env)
            if d[1] == 'dict' and k[1] == 'Epoch':
                return (f'(dict_get eqk {k[0]} {d[0]} (trans_of {k[0]}))', 'Tr')
        if isinstance(n, ast.Call):
            c = chain(n.func)
            if c == 'self.get_transitions' and not n.args and not n.keywords:
                return (f'(trans_of (ss_epoch {s}))', 'Tr')
            if c == 'self._graph_to_matrix' and len(n.args) == 1 and not n.keywords and isinstance(n.args[0], ast.Name):
                a = env.get(n.args[0].id)
                if a and a[1] == 'Tr.1':
                    return (f'(mat_of {a[0]})', 'Mx')
        fail(n, 'expression ' + ast.unparse(n)[:80])

    def cond(self, n, env):
        if isinstance(n, ast.BoolOp) and isinstance(n.op, ast.And):
            return '(' + ' && '.join(self.cond(v, env) for v in n.values) + ')%bool'
        if isinstance(n, ast.Compare) and len(n.ops) == 1:
            l, r = self.expr(n.left, env), self.expr(n.comparators[0], env)
            if isinstance(n.ops[0], ast.NotEq) and l[1] == r[1] == 'Epoch':
                return f'(negb (eqk {l[0]} {r[0]}))'
            if isinstance(n.ops[0], ast.In) and l[1] == 'Epoch' and r[1] == 'dict':
                return f'(dict_in eqk {l[0]} {r[0]})'
            fail(n, 'comparison')
        e = self.expr(n, env)
        if e[1] == 'bool':
            return e[0]
        fail(n, 'condition ' + ast.unparse(n))

    def assigned(self, stmts):
        """names bound / 'self' mutated by a block"""
        out = []
        def add(x):
            if x not in out:
                out.append(x)
        for s in stmts:
            if is_doc(s) or ast.unparse(s) in TIMING:
                continue
            if isinstance(s, ast.Assign):
                for t in s.targets:
                    for x in (t.elts if isinstance(t, ast.Tuple) else [t]):
                        if isinstance(x, ast.Name):
                            add(x.id)
                        else:
                            add('self')
            elif isinstance(s, (ast.Expr, ast.Try, ast.Delete)):
                add('self')
            elif isinstance(s, ast.If):
                for x in self.assigned(s.body) + self.assigned(s.orelse):
                    add(x)
        return out

    def block(self, stmts, env, k):
        stmts = [s for s in stmts if not is_doc(s)]
        if not stmts:
            return k(env)
        s, rest = stmts[0], stmts[1:]
        nxt = lambda e: self.block(rest, e, k)
        txt = ast.unparse(s)
        if txt in TIMING:
            self.skipped.append(f'line {s.lineno}: {txt} (timing)')
            return nxt(env)
        if isinstance(s, ast.Return):
            if s.value is None:
                fail(s, 'bare return')
            return ('RET', self.expr(s.value, env), env)
        if isinstance(s, ast.Try):
            if txt != 'try:\n    del self.S\nexcept AttributeError:\n    pass':
                fail(s, 'try statement other than the removal of the cached S')
            nv = self.fresh('self')
            return self.let(nv, f'set_S {env["self"][0]} None', nxt(dict(env, self=(nv, 'sspace'))))
        if isinstance(s, ast.Expr) and isinstance(s.value, ast.Call):
            c = chain(s.value.func)
            if c in ('self.drop_S',) and not s.value.args and not s.value.keywords:
                nv = self.fresh('self')
                return self.let(nv, f'StateSpace_drop_S {env["self"][0]}', nxt(dict(env, self=(nv, 'sspace'))))
            fail(s, 'call statement ' + txt[:60])
        if isinstance(s, ast.AnnAssign) and s.value is not None:
            s = ast.Assign(targets=[s.target], value=s.value, lineno=s.lineno)
        if isinstance(s, ast.Assign) and len(s.targets) == 1:
            t = s.targets[0]
            if isinstance(t, ast.Tuple) and [getattr(e, 'id', None) for e in t.elts] == ['transitions', 'states']:
                v = self.expr(s.value, env)
                if v[1] != 'Tr':
                    fail(s, 'pair assignment from ' + v[1])
                nv = self.fresh('tr')
                return self.let(nv, v[0], nxt(dict(env, transitions=(nv, 'Tr.1'), states=(nv, 'Tr.2'))))
            if isinstance(t, ast.Name):
                v = self.expr(s.value, env)
                if v[1] not in ('Tr', 'Epoch', 'bool'):
                    fail(s, 'local of type ' + v[1])
                nv = self.fresh(t.id)
                return self.let(nv, v[0], nxt(dict(env, **{t.id: (nv, v[1])})))
            c = chain(t)
            if c == 'self.epoch':
                v = self.expr(s.value, env)
                if v[1] != 'Epoch':
                    fail(s, 'self.epoch assigned a non-epoch')
                nv = self.fresh('self')
                return self.let(nv, f'set_epoch {env["self"][0]} {v[0]}', nxt(dict(env, self=(nv, 'sspace'))))
            if c == 'self._cache':
                v = self.expr(s.value, env)
                if v[1] != 'dict':
                    fail(s, 'self._cache assigned a non-dictionary')
                nv = self.fresh('self')
                return self.let(nv, f'set_cache {env["self"][0]} {v[0]}', nxt(dict(env, self=(nv, 'sspace'))))
            if isinstance(t, ast.Subscript) and chain(t.value) == 'self._cache':
                kk, v = self.expr(t.slice, env), self.expr(s.value, env)
                if kk[1] != 'Epoch' or v[1] != 'Tr':
                    fail(s, 'dictionary store')
                nv = self.fresh('self')
                return self.let(nv, f'set_cache {env["self"][0]} (dict_set eqk {kk[0]} {v[0]} (ss_cache {env["self"][0]}))',
                                nxt(dict(env, self=(nv, 'sspace'))))
            fail(s, 'assignment ' + txt[:60])
        if isinstance(s, ast.If):
            c = self.cond(s.test, env)
            ab, ao = self.assigned(s.body), self.assigned(s.orelse)
            # what leaves the statement: the object, names bound before, and names bound on BOTH paths (others are branch-local)
            names = [x for x in ab + [y for y in ao if y not in ab] if x == 'self' or x in env or (x in ab and x in ao)]
            if ['transitions', 'states'] == [x for x in names if x in ('transitions', 'states')]:
                names = [x for x in names if x != 'states']       # the pair travels as one value
            for x in names:
                if x != 'self' and x != 'transitions' and x not in env:
                    pass
            def fin(e):
                vals = []
                for x in names:
                    if x not in e:
                        fail(s, f'{x} is not bound on every path of the if statement')
                    vals.append(e[x][0])
                return ('TUP', vals, e)
            a = self.block(s.body, env, fin)
            b = self.block(s.orelse, env, fin)
            if not names:
                return nxt(env)
            at, bt = self.close(a), self.close(b)
            nvs = {x: self.fresh('tr' if x == 'transitions' else x) for x in names}
            env2 = dict(env)
            for x in names:
                if x == 'self':
                    env2['self'] = (nvs[x], 'sspace')
                elif x == 'transitions':
                    env2['transitions'] = (nvs[x], 'Tr.1')
                    env2['states'] = (nvs[x], 'Tr.2')
                else:
                    fail(s, f'local {x} bound inside an if statement')
            pat = nvs[names[0]] if len(names) == 1 else "'(" + ', '.join(nvs[x] for x in names) + ')'
            return ('LET', pat, f'(if {c} then\n{at}\n else\n{bt})', nxt(env2))
        fail(s, 'statement not supported: ' + txt[:80])

    def let(self, v, e, body):
        return ('LET', v, e, body)

    def close(self, t, ret=None):
        """render a term tree; `ret` renders the final value of a method"""
        if t[0] == 'LET':
            return f'(let {t[1]} := {t[2]} in\n{self.close(t[3], ret)})'
        if t[0] == 'TUP':
            return t[1][0] if len(t[1]) == 1 else '(' + ', '.join(t[1]) + ')'
        if t[0] == 'RET':
            return ret(t[1], t[2])
        if t[0] == 'END':
            return ret(None, t[1])
        raise AssertionError(t)


HEADER = '''(* GENERATED FILE - DO NOT EDIT.  Regenerated on every run of the checks that depend on the cache machine of the state space by
   /verif/translate/cache2coq.py (Python `ast`, fail-closed) from phasegen/state_space.py.
   The equivalence with the hand-written model (model/Cache.v) is proved in proofs/GenCacheEquiv.v.

   Translated: StateSpace.__init__ (fields), states, S, update_epoch, drop_S, drop_cache, _get_rate_matrix.
   Skipped statements:
%s
   Reading of the source and the scope check: see the docstring of the translator. *)
From Coq Require Import List Bool.
From PG Require Import model.Cache gen.NpCache.
Import ListNotations.
#[local] Arguments ss_epoch {Epoch Tr Mx}. #[local] Arguments ss_S {Epoch Tr Mx}.
#[local] Arguments ss_cache {Epoch Tr Mx}. #[local] Arguments ss_flag {Epoch Tr Mx}.

Section Gen.
  Variables Epoch Tr Mx : Type.
  Variable eqk : Epoch -> Epoch -> bool.
  Variable trans_of : Epoch -> Tr.          (* self.get_transitions() under the rates of the current epoch *)
  Variable mat_of : Tr -> Mx.               (* self._graph_to_matrix(transitions) *)
  Notation sspace := (sspace Epoch Tr Mx).
'''


def get_method(cls, mname):
    fs = [s for s in cls.body if isinstance(s, ast.FunctionDef) and s.name == mname]
    if len(fs) != 1:
        raise Unsupported(f'{cls.name}.{mname}: expected exactly one definition')
    return fs[0]


def scope_check(tree, base):
    """no other site writes the machine's fields; no subclass overrides a translated method"""
    subclasses = {base.name}
    changed = True
    while changed:
        changed = False
        for c in tree.body:
            if isinstance(c, ast.ClassDef) and c.name not in subclasses and any(chain(b) in subclasses for b in c.bases):
                subclasses.add(c.name)
                changed = True
    for c in tree.body:
        if not isinstance(c, ast.ClassDef):
            continue
        for f in c.body:
            if not isinstance(f, ast.FunctionDef):
                continue
            translated = c.name == base.name and f.name in METHODS + ['__init__']
            if c.name in subclasses and c.name != base.name and f.name in METHODS:
                fail(f, f'{c.name} overrides the translated method {f.name}')
            if translated:
                continue
            for n in ast.walk(f):
                tg = []
                if isinstance(n, ast.Assign):
                    tg = n.targets
                elif isinstance(n, (ast.AugAssign, ast.AnnAssign)):
                    tg = [n.target]
                elif isinstance(n, ast.Delete):
                    tg = n.targets
                for t in tg:
                    for x in (t.elts if isinstance(t, ast.Tuple) else [t]):
                        if isinstance(x, ast.Subscript):
                            x = x.value
                        cc = chain(x)
                        if cc and cc.split('.')[-1] in FIELDS and len(cc.split('.')) >= 2 and cc.split('.')[0] in ('self', 'state_space', 's') \
                                and (cc.split('.')[0] == 'self' and c.name in subclasses or 'state_space' in cc):
                            fail(n, f'{c.name}.{f.name} writes {cc} (outside the translated methods)')
                if isinstance(n, ast.Call) and chain(n.func) in ('setattr', 'delattr', 'object.__setattr__'):
                    fail(n, f'{c.name}.{f.name} uses {chain(n.func)}')


def translate(src_text):
    tree = ast.parse(src_text)
    cs = [c for c in tree.body if isinstance(c, ast.ClassDef) and c.name == 'StateSpace']
    if len(cs) != 1:
        raise Unsupported('class StateSpace: expected exactly one definition')
    cls = cs[0]
    scope_check(tree, cls)
    out, skipped = [], []
    # ---- __init__: the fields of the machine
    ini = get_method(cls, '__init__')
    names = [a.arg for a in ini.args.args]
    dfl = dict(zip(names[len(names) - len(ini.args.defaults):], [ast.unparse(d) for d in ini.args.defaults]))
    if names != ['self', 'lineage_config', 'locus_config', 'model', 'epoch', 'cache'] or dfl.get('cache') != 'True' or dfl.get('epoch') != 'None':
        fail(ini, 'StateSpace.__init__: unexpected signature')
    stores = {}
    for s in ini.body:
        if isinstance(s, ast.AnnAssign) and s.value is not None:
            s = ast.Assign(targets=[s.target], value=s.value, lineno=s.lineno)
        if isinstance(s, ast.Assign) and len(s.targets) == 1 and chain(s.targets[0]) and chain(s.targets[0]).startswith('self.'):
            stores[chain(s.targets[0])[5:]] = ast.unparse(s.value)
    if (stores.get('epoch'), stores.get('cache'), stores.get('_cache')) != ('epoch', 'cache', '{}') or 'S' in stores:
        raise Unsupported(f'StateSpace.__init__ must store epoch, cache and an empty _cache (found {stores})')
    out.append('  (* StateSpace.__init__: epoch as given (the default Epoch() when None), no S yet, empty _cache, the flag *)\n'
               '  Definition StateSpace_init (epoch : Epoch) (cache : bool) : sspace := mkSS Epoch Tr Mx epoch None [] cache.\n')
    deco = lambda f: sorted(ast.unparse(d) for d in f.decorator_list)
    # ---- order matters: drop_S is called by the others
    for name in ['drop_S', 'drop_cache', 'update_epoch', '_get_rate_matrix', 'S', 'states']:
        f = get_method(cls, name)
        want_deco = ['cached_property'] if name in ('S', 'states') else []
        if deco(f) != want_deco:
            fail(f, f'{name}: unexpected decorators {deco(f)}')
        args = [a.arg for a in f.args.args]
        fn = Fn()
        env = {'self': ('self', 'sspace')}
        if name == 'update_epoch':
            if args != ['self', 'epoch']:
                fail(f, 'update_epoch: unexpected signature')
            env['epoch'] = ('epoch', 'Epoch')
        elif args != ['self']:
            fail(f, f'{name}: unexpected signature')
        t = None if name == 'S' else fn.block(f.body, env, lambda e: ('END', e))
        if name in ('drop_S', 'drop_cache', 'update_epoch'):
            term = fn.close(t, lambda v, e: e['self'][0] if v is None else fail(f, f'{name} returns a value'))
            sig = '(self : sspace) (epoch : Epoch) : sspace' if name == 'update_epoch' else '(self : sspace) : sspace'
            out.append(f'  (* StateSpace.{name} *)\n  Definition StateSpace_{name} {sig} :=\n{term}.\n')
        elif name == '_get_rate_matrix':
            def ret(v, e):
                if v is None or v[1] != 'Mx':
                    fail(f, '_get_rate_matrix must return a matrix')
                return f'({e["self"][0]}, {v[0]})'
            out.append(f'  (* StateSpace._get_rate_matrix *)\n  Definition StateSpace_get_rate_matrix (self : sspace) : sspace * Mx :=\n{fn.close(t, ret)}.\n')
        elif name == 'S':
            if [ast.unparse(s) for s in f.body if not is_doc(s)] != ['return self._get_rate_matrix()']:
                fail(f, 'S: unexpected body')
            out.append('  (* StateSpace.S: functools.cached_property around _get_rate_matrix *)\n'
                       '  Definition StateSpace_S (self : sspace) : sspace * Mx :=\n'
                       '    match ss_S self with\n    | Some m => (self, m)\n'
                       "    | None => let '(self_1, m) := StateSpace_get_rate_matrix self in (set_S self_1 (Some m), m)\n    end.\n")
        elif name == 'states':
            def ret(v, e):
                if v is None or v[1] != 'Tr.2':
                    fail(f, 'states must return the states of get_transitions')
                return f'({e["self"][0]}, {v[0]})'
            out.append('  (* StateSpace.states: the body of the cached property (run once per object): the new object and the pair whose second\n'
                       '     component is returned *)\n'
                       f'  Definition StateSpace_states_body (self : sspace) : sspace * Tr :=\n{fn.close(t, ret)}.\n')
        skipped += [f'     {name} ' + x for x in fn.skipped]
    text = HEADER % '\n'.join(skipped) + '\n' + '\n'.join(out) + 'End Gen.\n'
    return text, ['StateSpace.' + m for m in ['__init__'] + METHODS]


def main():
    ap = argparse.ArgumentParser()
    ap.add_argument('--src', default=SRC_DEFAULT)
    ap.add_argument('--out', default=None)
    a = ap.parse_args()
    try:
        text, funcs = translate(open(a.src).read())
    except Unsupported as e:
        print('UNSUPPORTED:', e, file=sys.stderr)
        sys.exit(2)
    if a.out:
        open(a.out, 'w').write(text)
    else:
        sys.stdout.write(text)


if __name__ == '__main__':
    main()
