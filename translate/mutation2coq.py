#!/venv/bin/python
"""mutation2coq - fail-closed PIN of the mutation-configuration code of phasegen/distributions.py (SFSDistribution._get_P,
get_mutation_config, get_mutation_configs, _get_configs of both spectra, FoldedSFSDistribution._unfold) and of
StateSpace._get_partitions (phasegen/state_space.py), with the hand-written model functions as their Gallina reading:

    _get_P + the part of get_mutation_config after its guards   = mutation_prob of model/MutationProb.v (the possibly shared state
                 space is first re-pointed to the epoch of the distribution's own demography - fix b802829 -; restriction to the
                 non-absorbing states, P_total = inv(I - diag(1 / r_total) / theta @ S), p_total = (I - P_total) e,
                 P_i = P_total diag(R_i / r_total), the sum over the distinct orderings of the mutations of the products of the P_i,
                 alpha Q p_total); the guards themselves are the `guards` tie; theta == 0 returns 1 for the empty configuration, else 0
    _get_configs (unfolded / folded), StateSpace._get_partitions   = partitions_sum (n - 1) k / partitions_sum (n / 2) k of model/Mutation.v
    FoldedSFSDistribution._unfold                                  = unfold_config of model/Mutation.v
    get_mutation_configs   enumerates _get_configs(n, i) for i = 0, 1, 2, ... and adds each probability to generated_mass

The bodies are compared statement by statement with the expected text (a rewrite - harmless or not - fails closed).  Trusted: that the
expected text has the reading above (the exact-rational correspondence stream of C16 compares the implementation with mutation_prob
on every run)."""
import argparse
import ast
import sys

SRC_DEFAULT = '/repo/phasegen'
OUT_DEFAULT = '/verif/coq/theories/gen/MutationGen.v'


class Unsupported(Exception):
    pass


def is_doc(s):
    if isinstance(s, ast.Pass):
        return True
    return isinstance(s, ast.Expr) and isinstance(s.value, ast.Constant) and isinstance(s.value.value, str)


def get_method(tree, cname, mname):
    for c in tree.body:
        if isinstance(c, ast.ClassDef) and c.name == cname:
            fs = [s for s in c.body if isinstance(s, ast.FunctionDef) and s.name == mname]
            if len(fs) == 1:
                return fs[0]
    raise Unsupported(f'{cname}.{mname}: expected exactly one definition')


def texts(f):
    return [' '.join(ast.unparse(s).split()) for s in f.body if not is_doc(s)]


def pin(tree, cname, mname, want, deco=None):
    f = get_method(tree, cname, mname)
    got = texts(f)
    want = [' '.join(w.split()) for w in want]
    if got != want:
        raise Unsupported(f'{cname}.{mname}: unexpected body:\n' + '\n'.join('  ' + repr(x) for x in got))
    if deco is not None and sorted(ast.unparse(d) for d in f.decorator_list) != deco:
        raise Unsupported(f'{cname}.{mname}: unexpected decorators')


TEXT = '''(* GENERATED FILE - DO NOT EDIT.  Regenerated on every run of the checks that depend on the mutation configurations by
   /verif/translate/mutation2coq.py (Python `ast`, fail-closed PIN of the method bodies) from phasegen/distributions.py and
   phasegen/state_space.py.  The reading of the pinned text IS the hand-written model (model/MutationProb.v, model/Mutation.v);
   proofs/GenMutationEquiv.v restates the theorems about it under the names of the source. *)
From Coq Require Import ZArith QArith List Arith Bool.
From PG Require Import base.Ops model.CoalModels model.Matrix model.Mutation model.MutationProb.
Import ListNotations.

Section Gen.
  Context {T : Type} (OP : Ops T).
  (* get_mutation_config after its guards, theta <> 0: S on all states, the reward vectors of the bins, alpha, the mask of non-absorbing states *)
  Definition SFSDistribution_get_mutation_config (Sm : mat (T:=T)) (Rs : list (vec (T:=T))) (alpha : vec (T:=T)) (non_absorbing : list bool)
             (theta : T) (config : list nat) : T := mutation_prob OP Sm Rs alpha non_absorbing theta config.
End Gen.
(* _get_configs(n, k): the configurations with k mutations for n lineages; StateSpace._get_partitions(n=k, k=bins) *)
Definition StateSpace_get_partitions (n k : nat) : list (list nat) := partitions_sum k n.
Definition UnfoldedSFSDistribution_get_configs (n k : nat) : list (list nat) := StateSpace_get_partitions k (n - 1).
Definition FoldedSFSDistribution_get_configs (n k : nat) : list (list nat) := StateSpace_get_partitions k (n / 2).
(* FoldedSFSDistribution._unfold *)
Definition FoldedSFSDistribution_unfold (n : nat) (config : list nat) : list (list nat) := unfold_config n config.
'''


def translate(src_text):
    import os
    if os.path.isdir(src_text):
        base = src_text
    else:
        raise Unsupported('expected the phasegen directory')
    tree = ast.parse(open(os.path.join(base, 'distributions.py')).read())
    tree2 = ast.parse(open(os.path.join(base, 'state_space.py')).read())
    pin(tree, 'SFSDistribution', '_get_P',
        ['self.state_space.update_epoch(self.demography.get_epoch(0))',
         'non_absorbing = TreeHeightReward()._get(self.state_space).astype(bool)', 'e = self.state_space.e[non_absorbing]',
         'R = np.array([self._get_sfs_reward(i)._get(self.state_space) for i in range(1, n + 1)])[:, non_absorbing]',
         'r_total = R.T @ np.ones(n)', 'S = self.state_space.S[non_absorbing, :][:, non_absorbing]', 'I = np.eye(S.shape[0])',
         'P_total = np.linalg.inv(I - np.diag(1 / r_total) / theta @ S)', 'p_total = (I - P_total) @ e',
         'P = np.array([P_total @ np.diag(R[i] / r_total) for i in range(n)])', 'return (P, p_total)'], deco=['cache'])
    pin(tree, 'SFSDistribution', 'get_mutation_config',
        ["if self.demography.has_n_epochs(2): raise NotImplementedError('Sampling not implemented for more than one epoch.')",
         "if theta < 0: raise ValueError('Theta must be greater than or equal to 0.')",
         'n = len(self._get_configs(self.lineage_config.n, 0)[0])',
         "if len(config) != n: raise ValueError(f'The length of the configuration must be equal to the number of frequency bins. "
         "Expected {n}, got {len(config)}.')",
         'config = tuple((int(c) for c in config))', 'if theta == 0: if sum(config) == 0: return 1 return 0',
         'non_absorbing = TreeHeightReward()._get(self.state_space).astype(bool)', 'k = non_absorbing.sum()',
         'alpha = self.state_space.alpha[non_absorbing]', 'P, p_total = self._get_P(n, theta)',
         'q = list(itertools.chain(*[[i + 1] * j for i, j in enumerate(config)]))', 'Q = np.zeros((k, k))',
         'for p in multiset_permutations(q): U = np.eye(k) for i in p: U @= P[i - 1] Q += U', 'p = alpha @ Q @ p_total', 'return p'], deco=[])
    pin(tree, 'SFSDistribution', 'get_mutation_configs',
        ['self.generated_mass = 0', 'i = 0',
         'while True: for config in self._get_configs(self.lineage_config.n, i): p = self.get_mutation_config(config=config, theta=theta) '
         'self.generated_mass += p yield (config, p) i += 1'], deco=[])
    pin(tree, 'UnfoldedSFSDistribution', '_get_configs', ['return StateSpace._get_partitions(n=k, k=n - 1)'], deco=['staticmethod'])
    pin(tree, 'FoldedSFSDistribution', '_get_configs', ['return StateSpace._get_partitions(n=k, k=n // 2)'], deco=['staticmethod'])
    pin(tree, 'FoldedSFSDistribution', '_unfold',
        ['n = self.lineage_config.n',
         "if n // 2 != len(config): raise ValueError('The length of the configuration must equal n // 2 where n is the number of lineages.')",
         'if n % 2 == 1: lower_counts = [range(i + 1) for i in config] i_center = len(config) else: lower_counts = '
         '[range(i + 1) for i in config[:-1]] + [[config[-1]]] i_center = len(config) - 1',
         'unfolded = []',
         'for lower in itertools.product(*lower_counts): higher = (np.array(config) - np.array(lower))[:i_center][::-1] '
         'unfolded += [list(lower) + list(higher)]',
         'return set((tuple(u) for u in unfolded))'], deco=[])
    pin(tree2, 'StateSpace', '_get_partitions',
        ['if k == 0: return [[]]', 'if k == 1: return [[n]]', 'vectors = []',
         'for i in range(n + 1): for vector in StateSpace._get_partitions(n - i, k - 1): vectors.append(vector + [i])',
         'return vectors'], deco=['staticmethod'])
    return TEXT, ['SFSDistribution._get_P', 'SFSDistribution.get_mutation_config', 'SFSDistribution.get_mutation_configs',
                  'UnfoldedSFSDistribution._get_configs', 'FoldedSFSDistribution._get_configs', 'FoldedSFSDistribution._unfold',
                  'StateSpace._get_partitions']


def main():
    ap = argparse.ArgumentParser()
    ap.add_argument('--src', default=SRC_DEFAULT)
    ap.add_argument('--out', default=None)
    a = ap.parse_args()
    try:
        text, funcs = translate(a.src)
    except Unsupported as e:
        print('UNSUPPORTED:', e, file=sys.stderr)
        sys.exit(2)
    if a.out:
        open(a.out, 'w').write(text)
    else:
        sys.stdout.write(text)


if __name__ == '__main__':
    main()
