#!/venv/bin/python
"""py2coq - fail-closed translator of phasegen/coalescent_models.py to Gallina (stdlib `ast` only).

Translated: CoalescentModel.get_rate; StandardCoalescent / BetaCoalescent / DiracCoalescent
_get_timescale, _get_rate, _get_rate_block_counting; BetaCoalescent._get_base_rate; the __init__ of
BetaCoalescent and DiracCoalescent (raise guard and stored attributes).  Anything the translator does
not know (node, name, attribute, call, decorator, import) is an error naming the source line.

Typing (documented in the generated header too):
  int -> nat; float -> T (carrier of `Ops T`; Q inside __init__ guards); bool -> bool; Sequence[int] -> list nat.
  int - int is a nat subtraction only if an enclosing guard of the same function syntactically gives
  rhs <= lhs (also for `lhs + literal`); otherwise both sides are promoted to Z (a Z never flows back
  into a nat position: that is an error).  int/Z meeting a float is injected by oofN / oofZ (literals 0, 1
  by o0, o1).  `/` is odiv; `x ** e` is opow for an int e of type nat, sp_rpow for a float e.
"""
import argparse
import ast
import difflib
import sys

SRC_DEFAULT = '/repo/phasegen/coalescent_models.py'
OUT_DEFAULT = '/verif/coq/theories/gen/CoalModelsGen.v'
TARGETS = [('CoalescentModel', ['get_rate']),
           ('StandardCoalescent', ['_get_timescale', '_get_rate', '_get_rate_block_counting']),
           ('BetaCoalescent', ['__init__', '_get_base_rate', '_get_timescale', '_get_rate', '_get_rate_block_counting']),
           ('DiracCoalescent', ['__init__', '_get_timescale', '_get_rate', '_get_rate_block_counting'])]
EXTERNAL = {'np': ('numpy', None), 'comb': ('scipy.special', 'comb'), 'beta': ('scipy.special', 'beta'),
            'binom': ('scipy.stats', 'binom')}
RESERVED = set('fun let in if then else match with end forall exists as at fix cofix return where Type Prop Set '
               'T OP SP x_ nth length map seq combine fold_right fst snd negb andb orb'.split())
BUILTINS = ('len', 'sum', 'zip', 'range', 'super', 'ValueError', 'int', 'float', 'bool')
COQTY = {'nat': 'nat', 'Z': 'Z', 'T': 'T', 'Q': 'Q', 'bool': 'bool', 'natlist': 'list nat'}


class Unsupported(Exception):
    pass


def fail(node, msg):
    raise Unsupported(f'line {getattr(node, "lineno", "?")}: {msg}')


def is_self(n):
    return isinstance(n, ast.Name) and n.id == 'self'


def is_doc(s):
    """statements without effect on the translated value: docstrings, `pass`, and pure logging calls (logger.* / self._logger.* /
    logging.* / warnings.warn whose arguments contain no call, walrus or yield)"""
    if isinstance(s, ast.Pass):
        return True
    if isinstance(s, ast.Expr) and isinstance(s.value, ast.Constant) and isinstance(s.value.value, str):
        return True
    if isinstance(s, ast.Expr) and isinstance(s.value, ast.Call):
        f, parts = s.value.func, []
        while isinstance(f, ast.Attribute):
            parts.append(f.attr)
            f = f.value
        if isinstance(f, ast.Name):
            parts.append(f.id)
            parts = parts[::-1]
            is_log = (parts[:2] == ['self', '_logger'] or parts[0] in ('logger', 'logging') or parts == ['warnings', 'warn']) and len(parts) >= 2
            if is_log and parts[-1] in ('debug', 'info', 'warning', 'error', 'critical', 'warn', 'log'):
                inner = [n for a in list(s.value.args) + [k.value for k in s.value.keywords] for n in ast.walk(a)]
                if not any(isinstance(n, (ast.Call, ast.NamedExpr, ast.Yield, ast.YieldFrom, ast.Await, ast.Lambda)) for n in inner):
                    return True
    return False


def terminates(stmts):
    if not stmts:
        return False
    s = stmts[-1]
    return isinstance(s, (ast.Return, ast.Raise)) or (isinstance(s, ast.If) and terminates(s.body) and terminates(s.orelse))


class Module:
    def __init__(self, tree):
        self.classes, self.imports, self.emitted, self.names = {}, {}, {}, set()
        for s in tree.body:
            if is_doc(s):
                continue
            if isinstance(s, ast.Import):
                for a in s.names:
                    self.imports[a.asname or a.name] = (a.name, None)
            elif isinstance(s, ast.ImportFrom) and s.level == 0:
                for a in s.names:
                    self.imports[a.asname or a.name] = (s.module, a.name)
            elif isinstance(s, ast.ClassDef):
                if s.decorator_list or s.keywords or s.name in self.classes:
                    fail(s, f'class {s.name}: decorators / keywords / redefinition not supported')
                defs = [m.name for m in s.body if isinstance(m, ast.FunctionDef)]
                if len(defs) != len(set(defs)) or not all(is_doc(m) or isinstance(m, ast.FunctionDef) for m in s.body):
                    fail(s, f'class {s.name}: only a docstring and uniquely named methods are supported in a class body')
                self.classes[s.name] = s
            else:
                fail(s, f'module-level statement {type(s).__name__} not supported')
        self._attrs = {}
        if self.imports.get('Sequence') not in (None, ('typing', 'Sequence')):
            raise Unsupported('Sequence is not typing.Sequence')
        for name in BUILTINS:
            if name in self.imports or name in self.classes:
                raise Unsupported(f'builtin {name} is rebound by an import or a class')

    def external(self, node, name):
        if self.imports.get(name) != EXTERNAL[name]:
            fail(node, f'name {name} is not bound to {EXTERNAL[name]} (found {self.imports.get(name)})')

    def mro(self, cname):
        out = [cname]
        for b in self.classes[cname].bases:
            if isinstance(b, ast.Name) and b.id in self.classes:
                out += [c for c in self.mro(b.id) if c not in out]
            elif not (isinstance(b, ast.Name) and b.id == 'ABC' and self.imports.get('ABC') == ('abc', 'ABC')):
                fail(b, f'unknown base class of {cname}')
        return out

    def method(self, cname, mname, own=False):
        for c in ([cname] if own else self.mro(cname)):
            for s in self.classes[c].body:
                if isinstance(s, ast.FunctionDef) and s.name == mname:
                    return c, s
        return None, None

    def attrs(self, node, cname):
        """attributes of an instance of cname: {name: ('val', type, coq value) | ('obj', class)} from its own __init__"""
        if cname not in self._attrs:
            owner, f = self.method(cname, '__init__')
            if owner is None:
                self._attrs[cname] = ({}, None, [])
            elif owner != cname:
                fail(node, f'{cname} inherits __init__ from {owner}: not supported')
            else:
                self._attrs[cname] = Fn(self, cname, f, 'Q').init()
        return self._attrs[cname][0]


def ann_type(node, rt):
    if isinstance(node, ast.Name) and node.id in ('int', 'float', 'bool'):
        return {'int': 'nat', 'float': rt, 'bool': 'bool'}[node.id]
    if (isinstance(node, ast.Subscript) and isinstance(node.value, ast.Name) and node.value.id == 'Sequence'
            and isinstance(node.slice, ast.Name) and node.slice.id == 'int'):
        return 'natlist'
    fail(node, 'unsupported type annotation ' + (ast.unparse(node) if node is not None else '(missing)'))


def signature(f, rt):
    a = f.args
    if a.vararg or a.kwarg or a.kwonlyargs or a.posonlyargs or not a.args or a.args[0].arg != 'self':
        fail(f, f'{f.name}: unusual signature not supported')
    if a.defaults and f.name != '__init__':
        fail(f, f'{f.name}: default arguments not supported')
    return [(p.arg, ann_type(p.annotation, rt)) for p in a.args[1:]]


class Fn:
    """translation of one function; rt is the carrier of floats ('T', or 'Q' inside __init__)"""

    def __init__(self, mod, cname, f, rt='T'):
        self.mod, self.cname, self.f, self.rt = mod, cname, f, rt
        self.env, self.facts, self.absparams = {}, [], []
        if f.decorator_list:
            fail(f, f'{cname}.{f.name}: decorators not supported')
        self.params = signature(f, rt)
        for p, t in self.params:
            self.local(f, p, t)

    def local(self, node, name, ty):
        if name in RESERVED or name.startswith('self_') or name in EXTERNAL or not name.isidentifier():
            fail(node, f'variable name {name} not supported')
        self.env[name] = (name, ty)
        self.facts = [f for f in self.facts if f"id='{name}'" not in f[0] + f[1]]

    # ---------------- expressions: (coq text, type, int literal or None) ----------------
    def to(self, e, ty, node):
        s, t, lit = e
        if t == ty:
            return s
        if (t, ty) == ('nat', 'Z'):
            return f'{lit}%Z' if lit is not None else f'(Z.of_nat {s})'
        if (t, ty) == ('nat', 'T'):
            return {0: '(o0 OP)', 1: '(o1 OP)'}.get(lit, f'(oofN OP {s})')
        if (t, ty) == ('Z', 'T'):
            return f'(oofZ OP {s})'
        if (t, ty) == ('nat', 'Q') and lit is not None:
            return f'({lit} # 1)%Q'
        fail(node, f'no coercion from {t} to {ty} for `{ast.unparse(node)}`')

    def le(self, a, b):
        """is a <= b known from the enclosing guards?"""
        da = ast.dump(a)
        if (da, ast.dump(b)) in self.facts:
            return True
        return (isinstance(b, ast.BinOp) and isinstance(b.op, ast.Add) and isinstance(b.right, ast.Constant)
                and type(b.right.value) is int and b.right.value >= 0 and (da, ast.dump(b.left)) in self.facts)

    def cond_facts(self, c, neg):
        if isinstance(c, ast.UnaryOp) and isinstance(c.op, ast.Not):
            return self.cond_facts(c.operand, not neg)
        if isinstance(c, ast.BoolOp) and isinstance(c.op, ast.Or if neg else ast.And):
            return [f for v in c.values for f in self.cond_facts(v, neg)]
        out = []
        if isinstance(c, ast.Compare):
            if neg and len(c.ops) != 1:
                return []
            xs = [c.left] + c.comparators
            for op, a, b in zip(c.ops, xs, xs[1:]):
                k = type(op).__name__
                k = {'Lt': 'GtE', 'Gt': 'LtE', 'LtE': 'Gt', 'GtE': 'Lt'}.get(k) if neg else k
                if k in ('Lt', 'LtE'):
                    out.append((ast.dump(a), ast.dump(b)))
                elif k in ('Gt', 'GtE'):
                    out.append((ast.dump(b), ast.dump(a)))
        return out

    def ex(self, n):
        if isinstance(n, ast.Constant) and type(n.value) is int and n.value >= 0:
            return (str(n.value), 'nat', n.value)
        if isinstance(n, ast.Name) and isinstance(n.ctx, ast.Load) and n.id in self.env:
            return self.env[n.id] + (None,)
        if isinstance(n, ast.Attribute) and is_self(n.value):
            a = self.mod.attrs(n, self.cname).get(n.attr)
            if a is None or a[0] != 'val':
                fail(n, f'self.{n.attr} is not a value attribute stored by {self.cname}.__init__')
            return ('self_' + n.attr, a[1] if a[1] != 'Q' else self.rt, None)
        if isinstance(n, ast.Subscript):
            seq, idx = self.ex(n.value), self.ex(n.slice)
            if seq[1] != 'natlist' or idx[1] != 'nat':
                fail(n, 'only Sequence[int] indexed by a non-negative int is supported')
            return (f'(nth {idx[0]} {seq[0]} 0)', 'nat', None)
        if isinstance(n, ast.UnaryOp) and isinstance(n.op, ast.Not):
            return (f'(negb {self.to(self.ex(n.operand), "bool", n)})', 'bool', None)
        if isinstance(n, ast.BoolOp):
            vs = [self.to(self.ex(v), 'bool', v) for v in n.values]
            f = 'andb' if isinstance(n.op, ast.And) else 'orb'
            s = vs[0]
            for v in vs[1:]:
                s = f'({f} {s} {v})'
            return (s, 'bool', None)
        if isinstance(n, ast.Compare):
            xs = [n.left] + n.comparators
            cs = [self.cmp(op, self.ex(a), self.ex(b), n) for op, a, b in zip(n.ops, xs, xs[1:])]
            s = cs[0]
            for c in cs[1:]:
                s = f'(andb {s} {c})'
            return (s, 'bool', None)
        if isinstance(n, ast.BinOp):
            return self.binop(n)
        if isinstance(n, ast.Call):
            return self.call(n)
        fail(n, f'unsupported expression {type(n).__name__}: `{ast.unparse(n)}`')

    def cmp(self, op, a, b, node):
        k, tys = type(op).__name__, {a[1], b[1]}
        if tys <= {'nat', 'Z'}:
            ty = 'Z' if 'Z' in tys else 'nat'
            m = 'Z' if ty == 'Z' else 'Nat'
            x, y = self.to(a, ty, node), self.to(b, ty, node)
            tab = {'Lt': f'({m}.ltb {x} {y})', 'Gt': f'({m}.ltb {y} {x})', 'LtE': f'({m}.leb {x} {y})',
                   'GtE': f'({m}.leb {y} {x})', 'Eq': f'({m}.eqb {x} {y})'}
        elif self.rt == 'Q' and tys <= {'nat', 'Q'}:
            x, y = self.to(a, 'Q', node), self.to(b, 'Q', node)
            tab = {'Lt': f'(Qltb {x} {y})', 'Gt': f'(Qltb {y} {x})', 'LtE': f'(Qle_bool {x} {y})', 'GtE': f'(Qle_bool {y} {x})'}
        else:
            fail(node, f'comparison of {a[1]} with {b[1]} not supported (no order on the carrier T)')
        if k not in tab:
            fail(node, f'comparison operator {k} not supported here')
        return tab[k]

    def binop(self, n):
        a, b, k = self.ex(n.left), self.ex(n.right), type(n.op).__name__
        num = ('nat', 'Z', 'T')
        if a[1] not in num or b[1] not in num or k not in ('Add', 'Sub', 'Mult', 'Div', 'Pow'):
            fail(n, f'unsupported arithmetic `{ast.unparse(n)}` ({a[1]} {k} {b[1]})')
        if k == 'Pow':
            base = self.to(a, 'T', n.left)
            if b[1] == 'nat':
                return (f'(opow OP {base} {b[0]})', 'T', None)
            if b[1] == 'T':
                return (f'(sp_rpow SP {base} {b[0]})', 'T', None)
            fail(n, 'power with an exponent of type Z (possibly negative int) not supported')
        if k == 'Div' or 'T' in (a[1], b[1]):
            f = {'Add': 'oadd', 'Sub': 'osub', 'Mult': 'omul', 'Div': 'odiv'}[k]
            return (f'({f} OP {self.to(a, "T", n.left)} {self.to(b, "T", n.right)})', 'T', None)
        sym = {'Add': '+', 'Sub': '-', 'Mult': '*'}[k]
        if 'Z' in (a[1], b[1]) or (k == 'Sub' and not self.le(n.right, n.left)):
            return (f'({self.to(a, "Z", n.left)} {sym} {self.to(b, "Z", n.right)})%Z', 'Z', None)
        return (f'({a[0]} {sym} {b[0]})', 'nat', None)

    def bind(self, n, names, optional=()):
        got = dict(zip(names, n.args))
        if len(n.args) > len(names):
            fail(n, 'too many positional arguments')
        for kw in n.keywords:
            if kw.arg is None or kw.arg not in names or kw.arg in got:
                fail(n, f'unexpected keyword argument {kw.arg}')
            got[kw.arg] = kw.value
        for x in names:
            if x not in got and x not in optional:
                fail(n, f'missing argument {x}')
        return got

    def call(self, n):
        f = n.func
        if isinstance(f, ast.Name) and f.id not in self.env:
            if f.id in ('len', 'sum') and len(n.args) == 1 and not n.keywords:
                s = self.to(self.ex(n.args[0]), 'natlist', n)
                return (f'(length {s})' if f.id == 'len' else f'(fold_right Nat.add 0 {s})', 'nat', None)
            if f.id == 'comb':
                self.mod.external(n, 'comb')
                g = self.bind(n, ['N', 'k', 'exact'])
                if not (isinstance(g['exact'], ast.Constant) and g['exact'].value is True):
                    fail(n, 'comb(...) is only supported with exact=True')
                return (f'(sp_comb SP {self.to(self.ex(g["N"]), "nat", n)} {self.to(self.ex(g["k"]), "nat", n)})', 'Z', None)
            if f.id == 'beta' and len(n.args) == 2 and not n.keywords:
                self.mod.external(n, 'beta')
                x, y = (self.to(self.ex(v), 'T', v) for v in n.args)
                return (f'(sp_beta SP {x} {y})', 'T', None)
        if isinstance(f, ast.Attribute):
            v = f.value
            if isinstance(v, ast.Name) and (v.id, f.attr) == ('binom', 'pmf') and v.id not in self.env:
                self.mod.external(n, 'binom')
                g = self.bind(n, ['k', 'n', 'p'])
                k, nn, p = (self.to(self.ex(g[x]), t, g[x]) for x, t in (('k', 'nat'), ('n', 'nat'), ('p', 'T')))
                return (f'(sp_binom_pmf SP {k} {nn} {p})', 'T', None)
            if isinstance(v, ast.Name) and (v.id, f.attr) == ('np', 'prod') and v.id not in self.env:
                self.mod.external(n, 'np')
                if len(n.args) != 1 or n.keywords or not isinstance(n.args[0], ast.ListComp):
                    fail(n, 'np.prod is only supported on a list comprehension')
                l, ty = self.listcomp(n.args[0])
                one = {'nat': f'(fold_right Nat.mul 1 {l})', 'Z': f'(fold_right Z.mul 1%Z {l})', 'T': f'(oprod OP {l})'}
                if ty not in one:
                    fail(n, f'np.prod over elements of type {ty} not supported')
                return (one[ty], ty, None)
            if is_self(v):
                return self.mcall(n, self.cname, f.attr, True)
            if isinstance(v, ast.Attribute) and is_self(v.value):
                a = self.mod.attrs(n, self.cname).get(v.attr)
                if a is not None and a[0] == 'obj':
                    return self.mcall(n, a[1], f.attr, False)
        fail(n, f'unknown call `{ast.unparse(f)}(...)`')

    def listcomp(self, lc):
        if len(lc.generators) != 1 or lc.generators[0].ifs or lc.generators[0].is_async:
            fail(lc, 'only a single unconditional generator is supported')
        g, saved = lc.generators[0], dict(self.env)
        it, tg = g.iter, g.target
        isname = lambda x: isinstance(x, ast.Name) and x.id not in self.env
        if (isinstance(it, ast.Call) and isname(it.func) and it.func.id == 'zip' and len(it.args) == 2 and not it.keywords
                and isinstance(tg, ast.Tuple) and len(tg.elts) == 2 and all(isinstance(e, ast.Name) for e in tg.elts)):
            x, y = (self.to(self.ex(v), 'natlist', v) for v in it.args)
            src, var = f'(combine {x} {y})', 'x_'
            for e, proj in zip(tg.elts, ('fst', 'snd')):
                self.local(e, e.id, 'nat')
                self.env[e.id] = (f'({proj} x_)', 'nat')
        elif (isinstance(it, ast.Call) and isname(it.func) and it.func.id == 'range' and len(it.args) == 1 and not it.keywords
              and isinstance(tg, ast.Name)):
            src, var = f'(seq 0 {self.to(self.ex(it.args[0]), "nat", it)})', tg.id
            self.local(tg, tg.id, 'nat')
        else:
            fail(lc, f'unsupported generator `{ast.unparse(g)}`')
        s, ty, _ = self.ex(lc.elt)
        self.env = saved
        return f'(map (fun {var} => {s}) {src})', ty

    def mcall(self, n, cname, mname, on_self):
        owner, f = self.mod.method(cname, mname)
        if f is None:
            fail(n, f'unknown method {cname}.{mname}')
        decs = [ast.unparse(d) for d in f.decorator_list]
        abstract = decs == ['abstractmethod'] and self.mod.imports.get('abstractmethod') == ('abc', 'abstractmethod')
        if decs and not (abstract and on_self):
            fail(n, f'call of decorated method {owner}.{mname} not supported')
        params, ret = signature(f, 'T'), ann_type(f.returns, 'T')
        g = self.bind(n, [p for p, _ in params])
        args = [self.to(self.ex(g[p]), t, g[p]) for p, t in params]
        if abstract:      # an abstract method called on self is a function parameter of the definition
            head = ['self_' + mname.strip('_')]
            ty = ' -> '.join(COQTY[t] for t in [t for _, t in params] + [ret])
            if (head[0], ty) not in self.absparams:
                self.absparams.append((head[0], ty))
        else:
            if (owner, mname) not in self.mod.emitted:
                fail(n, f'{owner}.{mname} is called but is not (yet) translated')
            own = [a for a, v in self.mod.attrs(n, owner).items() if v[0] == 'val']
            if own and not (on_self and owner == self.cname):
                fail(n, f'call of {owner}.{mname} on an object with attributes not supported')
            head = [self.mod.emitted[(owner, mname)]] + ['self_' + a for a in own]
        return ('(' + ' '.join(head + args) + ')', ret, None)

    # ---------------- statements ----------------
    def block(self, stmts, k, ind):
        pad = '  ' * ind
        if not stmts:
            if k is None:
                fail(self.f, f'{self.cname}.{self.f.name}: control can fall off the end without a return')
            return k
        s, rest = stmts[0], stmts[1:]
        if is_doc(s):
            return self.block(rest, k, ind)
        if isinstance(s, ast.Return):
            if s.value is None or rest:
                fail(s, 'bare return / statements after return not supported')
            return pad + self.to(self.ex(s.value), self.ret, s.value)
        if isinstance(s, (ast.Assign, ast.AnnAssign, ast.AugAssign)):
            tg = s.targets[0] if isinstance(s, ast.Assign) and len(s.targets) == 1 else getattr(s, 'target', None)
            if not isinstance(tg, ast.Name) or s.value is None:
                fail(s, 'only assignments to a local variable are supported')
            val = s.value
            if isinstance(s, ast.AugAssign):
                val = ast.copy_location(ast.BinOp(ast.Name(tg.id, ast.Load()), s.op, s.value), s)
            e = self.ex(val)
            if tg.id in self.env and self.env[tg.id][1] != e[1]:
                fail(s, f'variable {tg.id} changes type from {self.env[tg.id][1]} to {e[1]}')
            self.local(tg, tg.id, e[1])
            return f'{pad}let {tg.id} := {e[0]} in\n' + self.block(rest, k, ind)
        if isinstance(s, ast.If):
            c = self.to(self.ex(s.test), 'bool', s.test)
            pos, neg = self.cond_facts(s.test, False), self.cond_facts(s.test, True)
            env0, facts0 = dict(self.env), list(self.facts)
            inner = [x for b in (s.body, s.orelse) for st in b for x in ast.walk(st)]
            if not any(isinstance(x, (ast.Return, ast.Raise)) for x in inner):
                vs = {x.id for x in inner if isinstance(x, ast.Name) and isinstance(x.ctx, ast.Store)}
                if len(vs) != 1 or not vs <= set(env0):
                    fail(s, 'a conditional update must assign exactly one, already defined, local variable')
                v = vs.pop()
                out = []
                for body, facts in ((s.body, pos), (s.orelse, neg)):
                    self.env, self.facts = dict(env0), facts0 + facts
                    out.append(self.block(body, '  ' * (ind + 2) + v, ind + 2))
                self.env, self.facts = env0, facts0
                self.local(s, v, env0[v][1])
                return (f'{pad}let {v} :=\n{pad}  if {c} then\n{out[0]}\n{pad}  else\n{out[1]} in\n'
                        + self.block(rest, k, ind))
            for body in (s.body, s.orelse):
                if not terminates(body) and any(isinstance(x, ast.Name) and isinstance(x.ctx, ast.Store)
                                                for st in body for x in ast.walk(st)):
                    fail(s, 'assignment in a branch that falls through to the following statements not supported')
            self.facts = facts0 + (neg if terminates(s.body) and not s.orelse else [])
            restk = self.block(rest, k, ind + 1) if (rest or k is not None) else None
            out = []
            for body, facts in ((s.body, pos), (s.orelse, neg)):
                self.env, self.facts = dict(env0), facts0 + facts
                out.append(self.block(body, restk, ind + 1))
            return f'{pad}if {c} then\n{out[0]}\n{pad}else\n{out[1]}'
        fail(s, f'unsupported statement {type(s).__name__}')

    def definition(self, name):
        self.ret = ann_type(self.f.returns, 'T')
        body = self.block(self.f.body, None, 2)
        own = [(f'self_{a}', v[1] if v[1] != 'Q' else 'T') for a, v in self.mod.attrs(self.f, self.cname).items() if v[0] == 'val']
        binders = [f'({p} : {t})' for p, t in self.absparams] + [f'({p} : {COQTY[t]})' for p, t in own + self.params]
        return f'  Definition {name} {" ".join(binders)} : {COQTY[self.ret]} :=\n{body}.'

    # ---------------- __init__: raise guard over Q, stored attributes ----------------
    def init(self):
        attrs, guards = {}, []
        for s in self.f.body:
            if is_doc(s):
                continue
            if isinstance(s, ast.Expr) and ast.dump(s.value) == ast.dump(ast.parse('super().__init__()').body[0].value):
                for c in self.mod.mro(self.cname)[1:]:
                    if self.mod.method(c, '__init__', own=True)[1] is not None:
                        fail(s, f'super().__init__() reaches {c}.__init__: not supported')
                continue
            if (isinstance(s, ast.If) and not s.orelse and len(s.body) == 1 and isinstance(s.body[0], ast.Raise)
                    and isinstance(s.body[0].exc, ast.Call) and isinstance(s.body[0].exc.func, ast.Name)
                    and s.body[0].exc.func.id == 'ValueError' and s.body[0].cause is None):
                guards.append(self.to(self.ex(s.test), 'bool', s.test))
                continue
            if (isinstance(s, (ast.Assign, ast.AnnAssign)) and s.value is not None):
                tg = s.targets[0] if isinstance(s, ast.Assign) and len(s.targets) == 1 else getattr(s, 'target', None)
                if isinstance(tg, ast.Attribute) and is_self(tg.value) and tg.attr not in attrs:
                    v = s.value
                    if isinstance(v, ast.Name) and v.id in self.env:
                        ty = self.env[v.id][1]
                        if isinstance(s, ast.AnnAssign) and ann_type(s.annotation, 'Q') != ty:
                            fail(s, f'annotation of self.{tg.attr} differs from the type of {v.id}')
                        attrs[tg.attr] = ('val', ty, v.id)
                        continue
                    if (isinstance(v, ast.Call) and isinstance(v.func, ast.Name) and v.func.id in self.mod.classes
                            and not v.args and not v.keywords and not self.mod.attrs(s, v.func.id)):
                        attrs[tg.attr] = ('obj', v.func.id)
                        continue
            fail(s, f'unsupported statement in {self.cname}.__init__: `{ast.unparse(s).splitlines()[0]}`')
        g = guards[0] if guards else 'false'
        for x in guards[1:]:
            g = f'(orb {g} {x})'
        return attrs, g, self.params


def translate(src_text, src_name='phasegen/coalescent_models.py'):
    """returns (coq text, list of translated functions); raises Unsupported / SyntaxError"""
    mod = Module(ast.parse(src_text))
    guards, defs, funcs = [], [], []
    for cname, meths in TARGETS:
        if cname not in mod.classes:
            raise Unsupported(f'class {cname} not found')
        for mname in meths:
            owner, f = mod.method(cname, mname, own=True)
            if f is None:
                fail(mod.classes[cname], f'method {cname}.{mname} not found')
            name = f'{cname}_{mname.strip("_")}'
            if name in mod.names:
                fail(f, f'name clash for {name}')
            mod.names.add(name)
            funcs.append(f'{cname}.{mname}')
            if mname == '__init__':
                attrs = mod.attrs(f, cname)
                _, g, params = mod._attrs[cname]
                qb = ' '.join(f'({p} : {COQTY[t]})' for p, t in params)
                guards.append(f'Definition {name}_raises {qb} : bool :=\n  {g}.')
                vals = [(a, v) for a, v in attrs.items() if v[0] == 'val']
                tb = ' '.join(f'({p} : {COQTY[t if t != "Q" else "T"]})' for p, t in params)
                defs.append(f'  (* attributes stored by {cname}.__init__, in the order '
                            f'({", ".join("self." + a for a, _ in vals)}) *)\n'
                            f'  Definition {name}_fields {tb} : {" * ".join(COQTY[v[1] if v[1] != "Q" else "T"] for _, v in vals)} :=\n'
                            f'    ({", ".join(v[2] for _, v in vals)}).')
            else:
                defs.append(f'  (* {cname}.{mname} *)\n' + Fn(mod, cname, f).definition(name))
                mod.emitted[(cname, mname)] = name
    header = f"""(* GENERATED FILE - DO NOT EDIT.  Regenerated on every run of the C14 check by
   /verif/translate/py2coq.py (Python `ast`, fail-closed) from {src_name}.
   The equivalence with the hand-written model model/CoalModels.v is proved in proofs/GenEquiv.v.

   Translated: {', '.join(funcs)}.
   NOT translated (left to the differential test of C14 against the model): every `coalesce`,
   CoalescentModel.get_rate_block_counting (numpy index arithmetic), the __eq__ methods and the default
   values of constructor arguments.

   Conventions: int -> nat, float -> T (Q in the constructor guards), bool -> bool, Sequence[int] -> list nat;
   `self.x` is the parameter self_x (every method takes all value attributes stored by its class's __init__);
   an abstract method called on self is a function parameter; scipy / float functions are the fields of
   SP : special T (gen/Special.v).  int - int is a subtraction in nat only where an enclosing guard of the
   same function gives rhs <= lhs, otherwise it is computed in Z; ints meeting floats are injected with
   oofN / oofZ (the literals 0 and 1 with o0 and o1); `/` is odiv; ** is opow for an int exponent and
   sp_rpow for a float exponent; b[i] is nth i b 0 (an IndexError of the source is not modelled). *)
From Coq Require Import ZArith QArith List Arith Bool.
From PG Require Import base.Ops gen.Special.
Import ListNotations.
Local Open Scope nat_scope.

(* ---- constructor guards: true = the constructor raises ValueError ---- *)
"""
    text = header + '\n\n'.join(guards) + '\n\nSection Gen.\n  Context {T : Type} (OP : Ops T) (SP : special T).\n\n' \
        + '\n\n'.join(defs) + '\nEnd Gen.\n'
    return text, funcs


def main():
    ap = argparse.ArgumentParser()
    ap.add_argument('--src', default=SRC_DEFAULT)
    ap.add_argument('--out', default=OUT_DEFAULT)
    ap.add_argument('--check', action='store_true', help='exit 0 if --out is up to date, 3 if not, 2 if translation fails')
    a = ap.parse_args()
    try:
        text, funcs = translate(open(a.src).read())
    except (Unsupported, SyntaxError, OSError) as e:
        sys.stderr.write(f'py2coq: translation of {a.src} failed: {e}\n')
        sys.exit(2)
    if a.check:
        try:
            old = open(a.out).read()
        except OSError:
            old = ''
        if old == text:
            sys.exit(0)
        sys.stdout.writelines(difflib.unified_diff(old.splitlines(True), text.splitlines(True), a.out, 'regenerated'))
        sys.exit(3)
    with open(a.out, 'w') as fh:
        fh.write(text)
    print(f'py2coq: wrote {a.out} ({len(funcs)} functions)')


if __name__ == '__main__':
    main()
