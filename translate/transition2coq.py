#!/venv/bin/python
"""transition2coq - fail-closed translator of the class `Transition` of phasegen/state_space.py to Gallina (stdlib `ast`).

Translated (as functions of the parameters P : params and one State): transit, migrate, migrate_unlinked, migrate_linked,
coalesce (one locus: every model through `model.coalesce`; two loci: the nine class pairs), recombine.
Checked textually, fail closed on any difference (their meaning is built into the hand-written support gen/NpTrans.v and the
model): Transition.add_target (dictionary accumulation = add_target of the model), State.__hash__/__eq__/copy/is_absorbing
and the State properties (lineages = data[0], linked = data[1], unlinked = lineages - linked, n_loci/n_demes/n_blocks = shape).

Reading of the imperative source (each point is part of the trusted base of this translator):
  * a State is the pair of nested lists (lin, lnk) [locus][deme][block] of the model; integer entries are nat (a decrement
    of 0 is not modelled: the source decrements only entries it has tested to be positive);
  * `x = source.copy(); x.lineages[i, j, k] -= 1` is a functional update of x (upd3o; `:` or a missing trailing index updates
    the whole axis); `source.unlinked[...]` is lineages - linked entry by entry;
  * a dict State -> (rate, kind) is the model's insertion-ordered association list; the `kind` label is dropped
    (it only colours plots); `a | b` and `a |= b` are dict_union;
  * a `for` loop is a fold_left over its iterable carrying the variables it reassigns; `continue` yields the carried value;
  * `if c: raise ...` is skipped: the generated function is the value returned WHEN NO EXCEPTION IS RAISED (C20 checks the
    guards by test); the conditions under which `coalesce`/`recombine` raise NotImplementedError are emitted separately;
  * the truth value of a one-element array is its element 0 (NumPy raises for other lengths: not modelled);
  * `self.state_space.epoch.pop_sizes[...]` / `model._get_timescale(...)` / `epoch.migration_rates[(pop_names[d1],
    pop_names[d2])]` with pop_names = lineage_config.pop_names are p_tscale / p_mig of the parameter record by the DEME AXIS of
    the states; any other name list (e.g. epoch.pop_names) is rejected.
"""
import argparse
import ast
import sys

SRC_DEFAULT = '/repo/phasegen/state_space.py'
OUT_DEFAULT = '/verif/coq/theories/gen/TransitionGen.v'
METHODS = ['migrate_unlinked', 'migrate_linked', 'migrate', 'coalesce', 'recombine', 'transit']


class Unsupported(Exception):
    pass


def fail(node, msg):
    raise Unsupported(f'line {getattr(node, "lineno", "?")}: {msg}')


def is_doc(s):
    """statements without effect on the translated value: docstrings, `pass`, and pure logging calls (logger.* / self._logger.* /
    logging.* / warnings.warn whose arguments contain no call, walrus or yield)"""
    if isinstance(s, ast.Pass):
        return True
    if isinstance(s, ast.Expr) and isinstance(s.value, ast.Constant) and isinstance(s.value.value, str):
        return True
    if isinstance(s, ast.Expr) and isinstance(s.value, ast.Call):
        f, parts = s.value.func, []
        while isinstance(f, ast.Attribute):
            parts.append(f.attr)
            f = f.value
        if isinstance(f, ast.Name):
            parts.append(f.id)
            parts = parts[::-1]
            is_log = (parts[:2] == ['self', '_logger'] or parts[0] in ('logger', 'logging') or parts == ['warnings', 'warn']) and len(parts) >= 2
            if is_log and parts[-1] in ('debug', 'info', 'warning', 'error', 'critical', 'warn', 'log'):
                inner = [n for a in list(s.value.args) + [k.value for k in s.value.keywords] for n in ast.walk(a)]
                if not any(isinstance(n, (ast.Call, ast.NamedExpr, ast.Yield, ast.YieldFrom, ast.Await, ast.Lambda)) for n in inner):
                    return True
    return False


def is_name(n, s):
    return isinstance(n, ast.Name) and n.id == s


def chain(n):
    out = []
    while isinstance(n, ast.Attribute):
        out.append(n.attr)
        n = n.value
    if isinstance(n, ast.Name):
        out.append(n.id)
        return out[::-1]
    return None


def body_text(f):
    return '\n'.join(ast.unparse(s) for s in f.body if not is_doc(s))


# methods whose meaning is built into the support library / the model: exact text (ast.unparse, docstrings dropped)
FIXED = {
    ('Transition', 'add_target'): "if target in targets:\n    targets[target] = (targets[target][0] + rate, targets[target][1] + '+' + kind)\nelse:\n    targets[target] = (rate, kind)",
    ('State', '__hash__'): 'return hash((self.data[0].tobytes(), self.data[1].tobytes()))',
    ('State', '__eq__'): 'return hash(self) == hash(other)',
    ('State', 'copy'): 'return State((self.data[0].copy(), self.data[1].copy()))',
    ('State', 'is_absorbing'): 'return np.all(self.lineages.sum(axis=(1, 2)) == 1)',
    ('State', 'n_demes'): 'return self.lineages.shape[1]',
    ('State', 'n_loci'): 'return self.lineages.shape[0]',
    ('State', 'n_blocks'): 'return self.lineages.shape[2]',
    ('State', 'lineages'): 'return self.data[0]',
    ('State', 'linked'): 'return self.data[1]',
    ('State', 'unlinked'): 'return self.lineages - self.linked',
}
PROPERTIES = {'n_demes', 'n_loci', 'n_blocks', 'lineages', 'linked', 'unlinked'}
AXES = ['l', 'd', 'b']
EXTENT = {'l': 'n_loci', 'd': 'n_demes', 'b': 'n_blocks'}


class View:
    """integer (or boolean) array view: remaining axes (subset of l, d, b in order) and a closure giving the entry"""

    def __init__(self, src, rem, at, boolean=False, row=None):
        self.src, self.rem, self.at, self.boolean, self.row = src, list(rem), at, boolean, row

    def index(self, pos, e):
        ax = self.rem[pos]
        rem = [a for a in self.rem if a != ax]
        at = self.at
        row = None
        return View(self.src, rem, lambda a, at=at, ax=ax, e=e: at(dict(a, **{ax: e})), self.boolean, row)

    def scalar(self):
        assert not self.rem
        return self.at({})

    def reify(self, fresh):
        """Coq function of the remaining axes"""
        names = {a: fresh(a) for a in self.rem}
        return '(fun ' + ' '.join(names[a] for a in self.rem) + ' => ' + self.at(names) + ')' if self.rem else self.at({})

    def reduce(self, kind, fresh, pred=None):
        """np.all / np.any over all remaining axes of a boolean view"""
        names = {a: fresh(a) for a in self.rem}
        body = self.at(names) if pred is None else pred(self.at(names))
        fn = 'forallb' if kind == 'all' else 'existsb'
        for a in reversed(self.rem):
            body = f'({fn} (fun {names[a]} => {body}) (seq 0 ({EXTENT[a]} {self.src})))'
        return body


class Fn:
    def __init__(self, mod, f):
        self.mod, self.f = mod, f
        self.n = 0
        self.raises = []

    def fresh(self, base):
        self.n += 1
        return f'{base}_{self.n}'

    # ---------------------------------------------------------------- expressions -> (coq, type) ; views are View
    def expr(self, n, env):
        if isinstance(n, ast.Constant):
            v = n.value
            if isinstance(v, bool):
                return ('true' if v else 'false', 'bool')
            if isinstance(v, int) and v >= 0:
                return (str(v), 'nat')
            if isinstance(v, str):
                return ('"' + v + '"%string', 'str')
            fail(n, f'constant {v!r}')
        if isinstance(n, ast.Name):
            if n.id in env:
                return env[n.id]
            fail(n, f'unknown name {n.id}')
        if isinstance(n, ast.Tuple):
            es = [self.expr(e, env) for e in n.elts]
            if all(not isinstance(e, View) for e in es):
                return ('(' + ', '.join(e[0] for e in es) + ')', 'tuple:' + ','.join(e[1] for e in es))
            fail(n, 'tuple of arrays')
        if isinstance(n, ast.IfExp):
            c = self.cond(n.test, env)
            a, b = self.expr(n.body, env), self.expr(n.orelse, env)
            if isinstance(a, View) or isinstance(b, View) or a[1] != b[1]:
                fail(n, 'conditional expression with different types')
            return (f'(if {c} then {a[0]} else {b[0]})', a[1])
        if isinstance(n, ast.Attribute):
            ch = chain(n)
            if ch and len(ch) == 2 and ch[0] in env and not isinstance(env[ch[0]], View) and env[ch[0]][1] == 'state':
                s = env[ch[0]][0]
                if ch[1] in ('n_loci', 'n_demes', 'n_blocks'):
                    return (f'({ch[1]} {s})', 'nat')
                if ch[1] in ('lineages', 'linked', 'unlinked'):
                    fn = {'lineages': 'vlin', 'linked': 'vlnk', 'unlinked': 'vunl'}[ch[1]]
                    return View(s, AXES, lambda a, fn=fn, s=s: f'({fn} {s} {a["l"]} {a["d"]} {a["b"]})')
            if ch == ['self', 'state_space', 'lineage_config', 'pop_names']:
                return ('pop_names', 'pop_names_lc')
            if ch == ['self', 'state_space', 'lineage_config', 'n']:
                return ('lineage_config_n', 'nat')
            if ch == ['self', 'state_space', 'locus_config', 'n']:
                return ('locus_config_n', 'nat')
            if ch == ['self', 'state_space', 'locus_config', 'recombination_rate']:
                return ('(p_rec P)', 'T')
            fail(n, 'attribute ' + ast.unparse(n))
        if isinstance(n, ast.Subscript):
            return self.subscript(n, env)
        if isinstance(n, ast.BinOp):
            l, r = self.expr(n.left, env), self.expr(n.right, env)
            if isinstance(n.op, ast.BitOr) and not isinstance(l, View) and l[1] == r[1] == 'targets':
                return (f'(dict_union {l[0]} {r[0]})', 'targets')
            l, r = self.sc(n.left, l), self.sc(n.right, r)
            if isinstance(n.op, ast.Mult):
                if l[1] == r[1] == 'nat':
                    return (f'({l[0]} * {r[0]})', 'nat')
                if 'T' in (l[1], r[1]):
                    return (f'(omul OP {self.toT(l)} {self.toT(r)})', 'T')
            if isinstance(n.op, ast.Div):
                return (f'(odiv OP {self.toT(l)} {self.toT(r)})', 'T')
            fail(n, f'operator {type(n.op).__name__} on {l[1]}, {r[1]}')
        if isinstance(n, ast.Call):
            return self.call(n, env)
        if isinstance(n, ast.Compare) or isinstance(n, ast.BoolOp) or isinstance(n, ast.UnaryOp):
            return (self.cond(n, env), 'bool')
        if isinstance(n, ast.Dict) and not n.keys:
            return ('[]', 'targets')
        fail(n, f'expression {type(n).__name__}')

    def sc(self, node, e):
        """scalar of a fully indexed view"""
        if isinstance(e, View):
            if e.rem:
                fail(node, 'array used where a scalar is needed')
            return (e.scalar(), 'bool' if e.boolean else 'nat')
        return e

    def toT(self, e):
        if e[1] == 'T':
            return e[0]
        if e[1] == 'nat':
            return f'(oofN OP {e[0]})'
        raise Unsupported(f'cannot use a value of type {e[1]} as a rate')

    def subscript(self, n, env):
        base = self.expr(n.value, env)
        sl = n.slice
        elts = sl.elts if isinstance(sl, ast.Tuple) else [sl]
        if isinstance(base, View):
            if len(elts) > len(base.rem):
                fail(n, 'too many indices')
            v = base
            pos = 0
            first = True
            for e in elts:
                if isinstance(e, ast.Slice):
                    if e.lower or e.upper or e.step:
                        fail(n, 'only full slices')
                    pos += 1
                    continue
                ie = self.sc(e, self.expr(e, env))
                if ie[1] != 'nat':
                    fail(e, 'index must be a non-negative integer')
                v = v.index(pos, ie[0])
            # remember the actual row for lineages[l, d]
            if (isinstance(n.value, ast.Attribute) and n.value.attr == 'lineages' and len(elts) == 2 and v.rem == ['b']
                    and not any(isinstance(e, ast.Slice) for e in elts)):
                i0, i1 = [self.sc(e, self.expr(e, env))[0] for e in elts]
                v.row = f'(row_lin {base.src} {i0} {i1})'
            return v
        if base[1] == 'pop_names_lc' and len(elts) == 1:
            i = self.sc(elts[0], self.expr(elts[0], env))
            return (i[0], 'popname')
        if base[1] == 'sizes_by_deme' and len(elts) == 1:
            i = self.sc(elts[0], self.expr(elts[0], env))
            return (i[0], 'size_of_deme')
        if base[1].startswith('view:'):
            # a Coq variable holding a (deme, block) view
            src = base[1].split(':')[1]
            v = View(src, ['d', 'b'], lambda a, nm=base[0]: f'({nm} {a["d"]} {a["b"]})')
            pos = 0
            for e in elts:
                if isinstance(e, ast.Slice):
                    pos += 1
                    continue
                ie = self.sc(e, self.expr(e, env))
                v = v.index(pos, ie[0])
            return v
        if isinstance(n.value, ast.Attribute) and chain(n.value) == ['self', 'state_space', 'epoch', 'migration_rates']:
            pass
        fail(n, 'subscript of ' + ast.unparse(n.value))

    def call(self, n, env):
        f = n.func
        ch = chain(f)
        kw = {k.arg: k.value for k in n.keywords}
        if ch == ['cast'] and len(n.args) == 2 and not kw and isinstance(n.args[0], ast.Name) and n.args[0].id in ('int', 'float'):
            return self.sc(n.args[1], self.expr(n.args[1], env))
        if ch in (['np', 'all'], ['np', 'any']) and len(n.args) == 1 and not kw:
            v = self.expr_or_boolview(n.args[0], env)
            if v is None:
                v = self.expr(n.args[0], env)
            if not isinstance(v, View):
                fail(n, 'np.all / np.any of a non-array')
            if v.boolean:
                return (v.reduce(ch[1], self.fresh), 'bool')
            # np.all(int array): every entry non-zero
            return (v.reduce(ch[1], self.fresh, pred=lambda x: f'(negb (Nat.eqb {x} 0))'), 'bool')
        if ch and ch[0] in env and len(ch) == 2 and not isinstance(env[ch[0]], View) and env[ch[0]][1] == 'state':
            s = env[ch[0]][0]
            if ch[1] == 'copy' and not n.args and not kw:
                return (s, 'state')
            if ch[1] == 'is_absorbing' and not n.args and not kw:
                return (f'(is_absorbing {s})', 'bool')
        if ch and ch[0] == 'self' and len(ch) == 2 and ch[1] in METHODS and len(n.args) == 1 and not kw:
            a = self.expr(n.args[0], env)
            if isinstance(a, View) or a[1] != 'state':
                fail(n, 'method argument must be a state')
            return (f'(Transition_{ch[1]} lineage_config_n locus_config_n P {a[0]})', 'targets')
        if ch == ['self', 'state_space', 'model', 'coalesce'] and len(n.args) == 2 and not kw:
            a0 = self.expr(n.args[0], env)
            v = self.expr(n.args[1], env)
            if isinstance(a0, View) or a0[0] != 'lineage_config_n' or not isinstance(v, View) or v.row is None:
                fail(n, 'model.coalesce must be called as coalesce(lineage_config.n, source.lineages[locus, deme])')
            return (f'(coalesce OP (p_model P) {v.row})', 'blocks')
        if ch == ['self', 'state_space', 'model', '_get_timescale'] and len(n.args) == 1 and not kw:
            a = self.expr(n.args[0], env)
            if isinstance(a, View) or a[1] != 'size_of_deme':
                fail(n, '_get_timescale must be applied to pop_sizes[deme] (sizes listed along the deme axis of the states)')
            return (f'(tscale_of OP P {a[0]})', 'T')
        if ch == ['self', 'state_space', 'model', '_get_rate'] and not n.args and set(kw) == {'b', 'k'}:
            b = self.sc(kw['b'], self.expr(kw['b'], env))
            k = self.sc(kw['k'], self.expr(kw['k'], env))
            if b[1] != 'nat' or k[1] != 'nat':
                fail(n, '_get_rate arguments must be integers')
            return (f'(get_rate_bk OP (p_model P) {b[0]} {k[0]})', 'T')
        if ch == ['dict'] and not n.args and kw:
            items = []
            src = None
            for k_, v_ in kw.items():
                v = self.expr(v_, env)
                if not isinstance(v, View) or v.rem != ['d', 'b']:
                    fail(n, 'dict(...) values must be (deme, block) arrays')
                src = v.src
                items.append(f'("{k_}"%string, {v.reify(self.fresh)})')
            return ('[' + '; '.join(items) + ']', f'dict:view:{src}')
        if isinstance(f, ast.Attribute) and f.attr == 'items' and not n.args and not kw:
            d = self.expr(f.value, env)
            if not isinstance(d, View) and d[1].startswith('dict:'):
                return (d[0], 'list:tuple:str,' + d[1][5:])
        if ch == ['product'] and len(n.args) == 1 and set(kw) == {'repeat'} and isinstance(kw['repeat'], ast.Constant) and kw['repeat'].value == 2:
            a = self.expr(n.args[0], env)
            if isinstance(a, View) or not a[1].startswith('list:'):
                fail(n, 'product of a non-list')
            return (f'(list_prod {a[0]} {a[0]})', f'list:tuple:{a[1][5:]}|{a[1][5:]}')
        if ch == ['range'] and len(n.args) == 1 and not kw:
            a = self.sc(n.args[0], self.expr(n.args[0], env))
            if a[1] != 'nat':
                fail(n, 'range of a non-integer')
            return (f'(seq 0 {a[0]})', 'list:nat')
        if ch == ['filter'] and len(n.args) == 2 and not kw and isinstance(n.args[0], ast.Lambda):
            lam = n.args[0]
            if (len(lam.args.args) == 1 and ast.unparse(lam.body) == f'{lam.args.args[0].arg}[0] != {lam.args.args[0].arg}[1]'):
                a = self.expr(n.args[1], env)
                if not isinstance(a, View) and a[1] == 'list:tuple:nat|nat':
                    return (f'(filter (fun x_ : nat * nat => negb (Nat.eqb (fst x_) (snd x_))) {a[0]})', 'list:tuple:nat|nat')
            fail(n, 'filter is supported as filter(lambda x: x[0] != x[1], product(range(n), repeat=2))')
        fail(n, 'call ' + ast.unparse(n)[:90])

    # ---------------------------------------------------------------- conditions -> coq bool
    def cond(self, n, env):
        if isinstance(n, ast.BoolOp):
            parts = [self.cond(v, env) for v in n.values]
            op = 'andb' if isinstance(n.op, ast.And) else 'orb'
            out = parts[0]
            for p in parts[1:]:
                out = f'({op} {out} {p})'
            return out
        if isinstance(n, ast.UnaryOp) and isinstance(n.op, ast.Not):
            return f'(negb {self.cond(n.operand, env)})'
        if isinstance(n, ast.Compare):
            if len(n.ops) != 1:
                fail(n, 'chained comparison')
            op = n.ops[0]
            ln, rn = n.left, n.comparators[0]
            if isinstance(op, (ast.In, ast.NotIn)):
                l = self.expr(ln, env)
                if isinstance(rn, ast.Tuple):
                    parts = [f'(String.eqb {l[0]} {self.expr(e, env)[0]})' for e in rn.elts]
                    if l[1] != 'str' or any(self.expr(e, env)[1] != 'str' for e in rn.elts):
                        fail(n, '`in` on a tuple needs strings')
                    out = parts[0]
                    for p in parts[1:]:
                        out = f'(orb {out} {p})'
                else:
                    r = self.expr(rn, env)
                    if l[1] != 'str' or isinstance(r, View) or r[1] != 'str':
                        fail(n, '`in` needs strings')
                    out = f'(str_in {l[0]} {r[0]})'
                return out if isinstance(op, ast.In) else f'(negb {out})'
            l, r = self.expr(ln, env), self.expr(rn, env)
            name = {ast.Gt: 'gt', ast.Lt: 'lt', ast.Eq: 'eq', ast.GtE: 'ge', ast.LtE: 'le'}.get(type(op))
            if name is None:
                fail(n, f'comparison {type(op).__name__}')
            if not isinstance(l, View) and not isinstance(r, View) and l[1] == r[1] == 'str':
                if name == 'eq':
                    return f'(String.eqb {l[0]} {r[0]})'
                if name == 'lt':
                    return f'(String.ltb {l[0]} {r[0]})'
                fail(n, 'string comparison')
            if isinstance(l, View) and l.rem:
                # elementwise comparison with a scalar: a boolean view; as a condition, a one-element array is its element 0
                r = self.sc(rn, r)
                bv = self.cmpview(n, l, name, r)
                names = {a: '0' for a in bv.rem}
                return bv.at(names)
            l, r = self.sc(ln, l), self.sc(rn, r)
            if l[1] == 'bool' and r == ('0', 'nat') and name == 'gt':
                return l[0]
            if l[1] == r[1] == 'nat':
                return {'gt': f'(Nat.ltb {r[0]} {l[0]})', 'lt': f'(Nat.ltb {l[0]} {r[0]})', 'eq': f'(Nat.eqb {l[0]} {r[0]})',
                        'ge': f'(Nat.leb {r[0]} {l[0]})', 'le': f'(Nat.leb {l[0]} {r[0]})'}[name]
            fail(n, f'comparison of {l[1]} and {r[1]}')
        e = self.expr(n, env)
        e = self.sc(n, e)
        if e[1] == 'bool':
            return e[0]
        fail(n, 'condition is not boolean')

    def cmpview(self, node, v, name, r):
        if r[1] != 'nat':
            fail(node, 'array compared with a non-integer')
        f = {'gt': lambda x: f'(Nat.ltb {r[0]} {x})', 'lt': lambda x: f'(Nat.ltb {x} {r[0]})', 'eq': lambda x: f'(Nat.eqb {x} {r[0]})',
             'ge': lambda x: f'(Nat.leb {r[0]} {x})', 'le': lambda x: f'(Nat.leb {x} {r[0]})'}[name]
        return View(v.src, v.rem, lambda a, at=v.at: f(at(a)), boolean=True)

    # expr override: comparisons of views inside np.all/any arguments must yield boolean views
    def expr_or_boolview(self, n, env):
        if isinstance(n, ast.Compare) and len(n.ops) == 1:
            l = self.expr(n.left, env)
            if isinstance(l, View) and l.rem:
                name = {ast.Gt: 'gt', ast.Lt: 'lt', ast.Eq: 'eq', ast.GtE: 'ge', ast.LtE: 'le'}.get(type(n.ops[0]))
                r = self.sc(n.comparators[0], self.expr(n.comparators[0], env))
                return self.cmpview(n, l, name, r)
        return None

    # ---------------------------------------------------------------- statements
    def assigned(self, stmts):
        """names (re)bound by a list of statements (including through mutation)"""
        out = set()
        for s in stmts:
            if isinstance(s, (ast.Assign, ast.AnnAssign, ast.AugAssign)):
                tgts = s.targets if isinstance(s, ast.Assign) else [s.target]
                for t in tgts:
                    while isinstance(t, (ast.Subscript, ast.Attribute)):
                        t = t.value
                    if isinstance(t, ast.Name):
                        out.add(t.id)
                    elif isinstance(t, ast.Tuple):
                        out |= {e.id for e in t.elts if isinstance(e, ast.Name)}
            elif isinstance(s, ast.Expr) and isinstance(s.value, ast.Call) and chain(s.value.func) == ['self', 'add_target']:
                a0 = s.value.args[0]
                if isinstance(a0, ast.Name):
                    out.add(a0.id)
            elif isinstance(s, ast.If):
                out |= self.assigned(s.body) | self.assigned(s.orelse)
            elif isinstance(s, ast.For):
                out |= self.assigned(s.body)
        return out

    def used(self, stmts):
        return {n.id for s in stmts for n in ast.walk(s) if isinstance(n, ast.Name)}

    def terminates(self, stmts):
        stmts = [s for s in stmts if not is_doc(s)]
        if not stmts:
            return False
        s = stmts[-1]
        if isinstance(s, (ast.Return, ast.Continue, ast.Raise)):
            return True
        return isinstance(s, ast.If) and bool(s.orelse) and self.terminates(s.body) and self.terminates(s.orelse)

    def block(self, stmts, env, k):
        """k(env) -> coq term for falling off the end of the block; returns coq term"""
        stmts = [s for s in stmts if not is_doc(s)]
        if not stmts:
            return k(env)
        s, rest = stmts[0], stmts[1:]
        nxt = lambda e: self.block(rest, e, k)
        if isinstance(s, ast.Return):
            v = self.expr(s.value, env)
            return v[0]
        if isinstance(s, ast.Continue):
            return env['__continue__'](env)
        if isinstance(s, ast.Raise):
            return env['__raise__'](env)
        if isinstance(s, ast.Expr) and isinstance(s.value, ast.Call) and chain(s.value.func) == ['self', 'add_target']:
            a = s.value.args
            if len(a) != 4 or s.value.keywords or not isinstance(a[0], ast.Name):
                fail(s, 'add_target call')
            d, t = self.expr(a[0], env), self.expr(a[1], env)
            r = self.sc(a[2], self.expr(a[2], env))
            kind = self.expr(a[3], env)
            if d[1] != 'targets' or t[1] != 'state' or kind[1] != 'str':
                fail(s, 'add_target(targets, state, rate, kind)')
            v = self.fresh(a[0].id)
            return f'(let {v} := add_target OP {d[0]} {t[0]} {self.toT(r)} in\n{nxt(dict(env, **{a[0].id: (v, "targets")}))})'
        if isinstance(s, ast.AugAssign):
            return self.augassign(s, env, nxt)
        if isinstance(s, (ast.Assign, ast.AnnAssign)):
            tgt = s.targets[0] if isinstance(s, ast.Assign) else s.target
            if isinstance(s, ast.Assign) and len(s.targets) != 1:
                fail(s, 'multiple assignment')
            if isinstance(tgt, ast.Subscript):
                return self.setrow(s, tgt, s.value, env, nxt)
            if not isinstance(tgt, ast.Name):
                fail(s, 'assignment target')
            # recognised configuration reads
            txt = ast.unparse(s.value)
            if txt == '[self.state_space.epoch.pop_sizes[pop] for pop in self.state_space.lineage_config.pop_names]':
                return nxt(dict(env, **{tgt.id: ('pop_sizes', 'sizes_by_deme')}))
            if txt.startswith('self.state_space.epoch.migration_rates['):
                key = s.value.slice
                if isinstance(key, ast.Tuple) and len(key.elts) == 2:
                    a, b = self.expr(key.elts[0], env), self.expr(key.elts[1], env)
                    if not isinstance(a, View) and a[1] == b[1] == 'popname':
                        v = self.fresh(tgt.id)
                        return f'(let {v} := mig_rate OP P {a[0]} {b[0]} in\n{nxt(dict(env, **{tgt.id: (v, "T")}))})'
                fail(s, 'migration_rates must be indexed by (pop_names[d1], pop_names[d2]) with pop_names of the lineage configuration')
            e = self.expr(s.value, env)
            if isinstance(e, View):
                if e.rem:
                    fail(s, 'an array is assigned to a local name')
                e = (e.scalar(), 'nat')
            if e[1] in ('pop_names_lc',):
                return nxt(dict(env, **{tgt.id: e}))
            v = self.fresh(tgt.id)
            return f'(let {v} := {e[0]} in\n{nxt(dict(env, **{tgt.id: (v, e[1])}))})'
        if isinstance(s, ast.If):
            # guards that only raise are skipped (the function is the value returned when no exception is raised)
            if not s.orelse and len(s.body) == 1 and isinstance(s.body[0], ast.Raise):
                self.raises.append((s.lineno, ast.unparse(s.test)))
                return nxt(env)
            c = self.cond(s.test, env)
            tb, te = self.terminates(s.body), (self.terminates(s.orelse) if s.orelse else False)
            if tb or te or not rest:
                a = self.block(s.body, env, nxt)
                b = self.block(s.orelse, env, nxt) if s.orelse else nxt(env)
                return f'(if {c} then\n{a}\nelse\n{b})'
            # join: variables modified in a branch and used afterwards
            ab, ae = self.assigned(s.body), self.assigned(s.orelse)
            live = self.used(rest) | set(env.get('__carried__', []))
            mod = sorted(m for m in (ab | ae) & live if m in env or (m in ab and m in ae))
            if not mod:
                fail(s, 'if statement without effect')
            types = {}

            def tup(e):
                for m in mod:
                    if m not in e or isinstance(e[m], View):
                        fail(s, f'variable {m} is not bound to a value on every path through the if statement')
                    if types.setdefault(m, e[m][1]) != e[m][1]:
                        fail(s, f'variable {m} has different types in the branches')
                return '(' + ', '.join(e[m][0] for m in mod) + ')' if len(mod) > 1 else e[mod[0]][0]
            a = self.block(s.body, env, tup)
            b = self.block(s.orelse, env, tup) if s.orelse else tup(env)
            vs = {m: self.fresh(m) for m in mod}
            pat = "'(" + ', '.join(vs[m] for m in mod) + ')' if len(mod) > 1 else vs[mod[0]]
            env2 = dict(env, **{m: (vs[m], types[m]) for m in mod})
            return f'(let {pat} := (if {c} then\n{a}\nelse\n{b}) in\n{nxt(env2)})'
        if isinstance(s, ast.For):
            return self.forloop(s, env, nxt)
        fail(s, f'statement {type(s).__name__}')

    def augassign(self, s, env, nxt):
        t = s.target
        if isinstance(t, ast.Name) and isinstance(s.op, ast.BitOr):
            d, v = self.expr(t, env), self.expr(s.value, env)
            if d[1] != 'targets' or v[1] != 'targets':
                fail(s, '|= on non-dictionaries')
            nv = self.fresh(t.id)
            return f'(let {nv} := dict_union {d[0]} {v[0]} in\n{nxt(dict(env, **{t.id: (nv, "targets")}))})'
        if isinstance(t, ast.Subscript) and isinstance(s.value, ast.Constant) and s.value.value == 1 and isinstance(s.op, (ast.Add, ast.Sub)):
            ch = chain(t.value)
            if not (ch and len(ch) == 2 and ch[0] in env and env[ch[0]][1] == 'state' and ch[1] in ('lineages', 'linked')):
                fail(s, 'in-place update must be on x.lineages[...] or x.linked[...] of a copied state')
            st = env[ch[0]][0]
            sl = t.slice
            elts = sl.elts if isinstance(sl, ast.Tuple) else [sl]
            sel = []
            for e in elts:
                if isinstance(e, ast.Slice):
                    if e.lower or e.upper or e.step:
                        fail(s, 'only full slices')
                    sel.append('None')
                else:
                    ie = self.sc(e, self.expr(e, env))
                    if ie[1] != 'nat':
                        fail(e, 'index must be an integer')
                    sel.append(f'(Some {ie[0]})')
            sel += ['None'] * (3 - len(sel))
            fn = 'S' if isinstance(s.op, ast.Add) else 'pred'
            field, setter = ('lin', 'st_set_lin') if ch[1] == 'lineages' else ('lnk', 'st_set_lnk')
            nv = self.fresh(ch[0])
            return (f'(let {nv} := {setter} {st} (upd3o ({field} {st}) {sel[0]} {sel[1]} {sel[2]} {fn}) in\n'
                    f'{nxt(dict(env, **{ch[0]: (nv, "state")}))})')
        fail(s, 'augmented assignment')

    def setrow(self, s, tgt, val, env, nxt):
        ch = chain(tgt.value)
        if not (ch and len(ch) == 2 and ch[0] in env and env[ch[0]][1] == 'state' and ch[1] == 'lineages'):
            fail(s, 'subscript assignment must be x.lineages[locus, deme] = block')
        elts = tgt.slice.elts if isinstance(tgt.slice, ast.Tuple) else [tgt.slice]
        v = self.expr(val, env)
        if len(elts) != 2 or isinstance(v, View) or v[1] != 'natvec':
            fail(s, 'subscript assignment must be x.lineages[locus, deme] = block')
        i0, i1 = [self.sc(e, self.expr(e, env))[0] for e in elts]
        st = env[ch[0]][0]
        nv = self.fresh(ch[0])
        return f'(let {nv} := st_set_lin {st} (updrow (lin {st}) {i0} {i1} {v[0]}) in\n{nxt(dict(env, **{ch[0]: (nv, "state")}))})'

    def forloop(self, s, env, nxt):
        if s.orelse:
            fail(s, 'for ... else')
        it_ = self.expr(s.iter, env)
        if isinstance(it_, View) or not (it_[1].startswith('list:') or it_[1] == 'blocks'):
            fail(s, 'loop over a non-list')
        carried = sorted(self.assigned(s.body) & set(k_ for k_ in env if not k_.startswith('__')))
        if not carried:
            fail(s, 'loop without effect')
        acc = {m: self.fresh(m) for m in carried}
        pat_acc = "'(" + ', '.join(acc[m] for m in carried) + ')' if len(carried) > 1 else acc[carried[0]]
        tup = lambda e: '(' + ', '.join(e[m][0] for m in carried) + ')' if len(carried) > 1 else e[carried[0]][0]
        # loop variable pattern and bindings
        ety = 'tuple:natvec,T' if it_[1] == 'blocks' else it_[1][5:]
        pat, binds = self.pattern(s.target, ety, s)
        benv = dict(env, **{m: (acc[m], env[m][1]) for m in carried})
        benv.update(binds)
        benv['__continue__'] = tup
        benv['__carried__'] = carried
        body = self.block(s.body, benv, tup)
        x = self.fresh('it')
        res = {m: self.fresh(m) for m in carried}
        pat_res = "'(" + ', '.join(res[m] for m in carried) + ')' if len(carried) > 1 else res[carried[0]]
        env2 = dict(env, **{m: (res[m], env[m][1]) for m in carried})
        return (f'(let {pat_res} := fold_left (fun {"acc_" if len(carried) > 1 else acc[carried[0]]} {x} =>\n'
                + (f"let {pat_acc} := acc_ in\n" if len(carried) > 1 else '')
                + f'let {pat} := {x} in\n{body}) {it_[0]} {tup(env)} in\n{nxt(env2)})')

    def pattern(self, t, ty, node):
        """Coq pattern for a loop target of element type ty; returns (pattern, bindings)"""
        if isinstance(t, ast.Name):
            v = self.fresh(t.id)
            if ty.startswith('view:'):
                return v, {t.id: (v, ty)}
            if ty in ('nat', 'str', 'T', 'natvec'):
                return v, {t.id: (v, ty)}
            fail(node, f'loop variable of type {ty}')
        if isinstance(t, ast.Tuple) and len(t.elts) == 2 and ty.startswith('tuple:'):
            body = ty[6:]
            if '|' in body:
                a, b = body.split('|', 1)
                if not a.startswith('tuple:') and ',' not in a:
                    pass
            else:
                a, b = body.split(',', 1)
            pa, ba = self.pattern(t.elts[0], a, node)
            pb, bb = self.pattern(t.elts[1], b, node)
            return f"'({pa.lstrip(chr(39))}, {pb.lstrip(chr(39))})", dict(ba, **bb)
        fail(node, f'loop target does not match element type {ty}')


HEADER = '''(* GENERATED FILE - DO NOT EDIT.  Regenerated on every run of the checks that depend on the transition structure by
   /verif/translate/transition2coq.py (Python `ast`, fail-closed) from the class Transition of phasegen/state_space.py.
   The equivalence with the hand-written model model/StateSpace.v is proved in proofs/GenTransitionEquiv.v.

   Translated: %s.
   Checked textually (their meaning is built into gen/NpTrans.v and the model): %s.
   `if c: raise ...` statements skipped (the functions below give the value returned when no exception is raised):
%s
   Reading of the source: see the docstring of the translator. *)
From Coq Require Import ZArith List Arith Bool String.
From PG Require Import base.Ops model.CoalModels model.StateSpace gen.NpTrans.
Import ListNotations.
Local Open Scope nat_scope.

Section Gen.
  Context {T : Type} (OP : Ops T).
'''


def translate(src_text):
    tree = ast.parse(src_text)
    classes = {s.name: s for s in tree.body if isinstance(s, ast.ClassDef)}
    imports = {}
    for s in tree.body:
        if isinstance(s, ast.ImportFrom):
            for a in s.names:
                imports[a.asname or a.name] = (s.module, a.name)
        elif isinstance(s, ast.Import):
            for a in s.names:
                imports[a.asname or a.name] = (a.name, None)
    for k, v in {'np': ('numpy', None), 'product': ('itertools', 'product'), 'cast': ('typing', 'cast'),
                 'StandardCoalescent': ('coalescent_models', 'StandardCoalescent')}.items():
        if imports.get(k) != v:
            raise Unsupported(f'name {k} is not bound to {v} (found {imports.get(k)})')
    for c in ('Transition', 'State', 'LineageCountingStateSpace', 'BlockCountingStateSpace', 'StateSpace'):
        if c not in classes:
            raise Unsupported(f'class {c} not found')
    for name in ('dict', 'range', 'filter', 'any', 'all', 'isinstance', 'hash'):
        if name in imports or name in classes:
            raise Unsupported(f'builtin {name} is rebound')

    def method(c, m):
        fs = [s for s in classes[c].body if isinstance(s, ast.FunctionDef) and s.name == m]
        if len(fs) != 1:
            raise Unsupported(f'{c}.{m}: expected exactly one definition')
        return fs[0]
    for (c, m), want in FIXED.items():
        f = method(c, m)
        got = body_text(f)
        if got != want:
            fail(f, f'{c}.{m} has an unexpected body:\n{got}')
        decos = [ast.unparse(d) for d in f.decorator_list]
        if decos != (['property'] if m in PROPERTIES else (['staticmethod'] if m == 'add_target' else [])):
            fail(f, f'{c}.{m}: unexpected decorators {decos}')
    # nothing else may be defined on State / Transition that could shadow what is used
    extra = {s.name for s in classes['Transition'].body if isinstance(s, ast.FunctionDef)} - set(METHODS) - {'__init__', 'add_target'}
    if extra:
        raise Unsupported(f'Transition has methods the translator does not know: {sorted(extra)}')
    out, raises_doc = [], []
    for m in METHODS:
        f = method('Transition', m)
        if f.decorator_list or [a.arg for a in f.args.args] not in (['self', 'source'], ['self', 'state']) or f.args.defaults:
            fail(f, f'Transition.{m}: unusual signature')
        pyarg = f.args.args[1].arg
        arg = 'state0' if pyarg == 'state' else pyarg
        fn = Fn(None, f)
        env = {pyarg: (arg, 'state')}
        if m in ('coalesce', 'recombine'):
            term, ni = translate_guarded(fn, f, env, m)
            out.append(f'  (* Transition.{m}: conditions under which the source raises NotImplementedError *)\n'
                       f'  Definition Transition_{m}_not_implemented (lineage_config_n locus_config_n : nat) (P : params (T:=T)) ({arg} : state) : bool :=\n    {ni}.\n')
        else:
            env['__raise__'] = lambda e: fail(f, 'raise in an unexpected position')
            term = fn.block(f.body, env, lambda e: fail(f, f'Transition.{m} can fall off its end'))
        out.append(f'  (* Transition.{m} *)\n  Definition Transition_{m} (lineage_config_n locus_config_n : nat) (P : params (T:=T)) ({arg} : state) : targets (T:=T) :=\n{term}.\n')
        for ln, c in fn.raises:
            raises_doc.append(f'     Transition.{m} line {ln}: if {c}')
    text = HEADER % (', '.join('Transition.' + m for m in METHODS), ', '.join(f'{c}.{m}' for c, m in FIXED),
                     '\n'.join(raises_doc)) + '\n' + '\n'.join(out) + 'End Gen.\n'
    return text, ['Transition.' + m for m in METHODS]


def isinstance_test(t):
    """isinstance(self.state_space, LineageCountingStateSpace) / isinstance(self.state_space.model, StandardCoalescent)"""
    if isinstance(t, ast.UnaryOp) and isinstance(t.op, ast.Not):
        inner = isinstance_test(t.operand)
        return None if inner is None else f'(negb {inner})'
    if not (isinstance(t, ast.Call) and is_name(t.func, 'isinstance') and len(t.args) == 2 and not t.keywords):
        return None
    a, b = chain(t.args[0]), t.args[1]
    if a == ['self', 'state_space'] and is_name(b, 'LineageCountingStateSpace'):
        return '(p_lc P)'
    if a == ['self', 'state_space', 'model'] and is_name(b, 'StandardCoalescent'):
        return '(is_standard (p_model P))'
    return None


def translate_guarded(fn, f, env, m):
    """coalesce / recombine: top-level structure with NotImplementedError branches"""
    ni_terms = []          # (path condition, ) under which NotImplementedError is raised

    def blk(stmts, env, path):
        stmts = [s for s in stmts if not is_doc(s)]
        if not stmts:
            fail(f, f'Transition.{m} can fall off its end')
        s, rest = stmts[0], stmts[1:]
        if isinstance(s, ast.Raise):
            exc = s.exc
            if isinstance(exc, ast.Call) and is_name(exc.func, 'NotImplementedError'):
                ni_terms.append(path)
                return '[]'
            fail(s, 'unexpected raise')
        if isinstance(s, ast.If):
            it = isinstance_test(s.test)
            if it is not None and len(s.body) == 1 and isinstance(s.body[0], ast.Raise) and not s.orelse:
                # if not isinstance(...): raise NotImplementedError
                ni_terms.append(path + [it])
                return blk(rest, env, path + [f'(negb {it})'])
            if it is not None:
                a = blk(s.body, env, path + [it])
                b = blk(s.orelse if s.orelse else rest, env, path + [f'(negb {it})'])
                return f'(if {it} then\n{a}\nelse\n{b})'
            if not s.orelse and len(s.body) == 1 and isinstance(s.body[0], ast.Raise) and \
                    isinstance(s.body[0].exc, ast.Call) and is_name(s.body[0].exc.func, 'ValueError'):
                fn.raises.append((s.lineno, ast.unparse(s.test)))
                return blk(rest, env, path)
            c = fn.cond(s.test, env)
            if fn.terminates(s.body) and not s.orelse:
                benv = dict(env)
                benv['__raise__'] = lambda e: fail(s, 'raise inside a branch')
                a = blk(s.body, env, path + [c])
                b = blk(rest, env, path + [f'(negb {c})'])
                return f'(if {c} then\n{a}\nelse\n{b})'
            fail(s, 'top-level if of an unexpected shape')
        if isinstance(s, ast.Return):
            return fn.expr(s.value, env)[0]
        # ordinary statement: delegate one statement, continue with the rest in this top-level mode
        holder = {}

        def k(e):
            holder['env'] = e
            return '@@REST@@'
        env_ = dict(env)
        env_['__raise__'] = lambda e: fail(s, 'raise inside a loop')
        t = fn.block([s], env_, k)
        if 'env' not in holder:
            return t
        return t.replace('@@REST@@', blk(rest, holder['env'], path))

    term = blk(f.body, env, [])
    ors = []
    for p in ni_terms:
        if not p:
            ors.append('true')
            continue
        c = p[0]
        for q in p[1:]:
            c = f'(andb {c} {q})'
        ors.append(c)
    ni = 'false'
    for o in ors:
        ni = o if ni == 'false' else f'(orb {ni} {o})'
    return term, ni


def main():
    ap = argparse.ArgumentParser()
    ap.add_argument('--src', default=SRC_DEFAULT)
    ap.add_argument('--out', default=None)
    a = ap.parse_args()
    try:
        text, funcs = translate(open(a.src).read())
    except Unsupported as e:
        print('UNSUPPORTED:', e, file=sys.stderr)
        sys.exit(2)
    if a.out:
        open(a.out, 'w').write(text)
    else:
        sys.stdout.write(text)


if __name__ == '__main__':
    main()
