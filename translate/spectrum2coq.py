#!/venv/bin/python
"""spectrum2coq - fail-closed PIN of the two-dimensional spectrum class SFS2 of phasegen/spectrum.py (what `sfs.cov`, `sfs.corr`,
`fsfs.cov` ... are wrapped in), with a Gallina reading of its folding and symmetrising:

    SFS2.__init__        n = data.shape[0]; w = n // 2 + 1 if n % 2 == 1 else n // 2
    SFS2.fold            twice: left = rows [:w] padded with n - w zero rows, right = rows [w:] REVERSED padded with w zero rows,
                         data = (left + right).T
    SFS2.symmetrize      (data + data.T) / 2
    SFS2.is_folded       np.all(data == fold().data)
    SFS2.__add__ / __sub__ / __mul__ / __truediv__ / __pow__   entrywise on the data (an SFS2 operand is replaced by its data)
    SFS2.fill_monomorphic, _remove_monomorphic                 body pinned only

The bodies are compared statement by statement with the expected text (a rewrite - harmless or not - fails closed); the reading:
`data[:w]` is firstn w, `data[w:][::-1]` is rev (skipn w ..), `np.zeros((r, n))` is mzero r n, `np.concatenate((a, b))` is a ++ b,
`+` is the entrywise sum of model/Matrix.v, `.T` the transposition of gen/NpSfs.v.
"""
import argparse
import ast
import sys

SRC_DEFAULT = '/repo/phasegen/spectrum.py'
OUT_DEFAULT = '/verif/coq/theories/gen/SpectrumGen.v'


class Unsupported(Exception):
    pass


def is_doc(s):
    if isinstance(s, ast.Pass):
        return True
    return isinstance(s, ast.Expr) and isinstance(s.value, ast.Constant) and isinstance(s.value.value, str)


def get_method(tree, cname, mname):
    for c in tree.body:
        if isinstance(c, ast.ClassDef) and c.name == cname:
            fs = [s for s in c.body if isinstance(s, ast.FunctionDef) and s.name == mname]
            if len(fs) == 1:
                return fs[0]
    raise Unsupported(f'{cname}.{mname}: expected exactly one definition')


def texts(f):
    return [' '.join(ast.unparse(s).split()) for s in f.body if not is_doc(s)]


def pin(tree, cname, mname, want, args, deco=()):
    f = get_method(tree, cname, mname)
    got = texts(f)
    want = [' '.join(w.split()) for w in want]
    if got != want:
        raise Unsupported(f'{cname}.{mname}: unexpected body:\n' + '\n'.join('  ' + repr(x) for x in got))
    if [a.arg for a in f.args.args] != args:
        raise Unsupported(f'{cname}.{mname}: unexpected parameters {[a.arg for a in f.args.args]}')
    if sorted(ast.unparse(d) for d in f.decorator_list) != sorted(deco):
        raise Unsupported(f'{cname}.{mname}: unexpected decorators')


TEXT = '''(* GENERATED FILE - DO NOT EDIT.  Regenerated on every run of the checks that depend on the two-dimensional spectrum class by
   /verif/translate/spectrum2coq.py (Python `ast`, fail-closed PIN of the method bodies) from phasegen/spectrum.py.
   The theorems about it are in proofs/GenSpectrumEquiv.v.  Reading of the source: see the docstring of the translator. *)
From Coq Require Import List Arith Bool.
From PG Require Import base.Ops model.CoalModels model.Matrix gen.NpSfs.
Import ListNotations.

Section Gen.
  Context {T : Type} (OP : Ops T).

  (* SFS2.__init__: self.w *)
  Definition SFS2_w (n : nat) : nat := if Nat.eqb (n mod 2) 1 then n / 2 + 1 else n / 2.

  (* one round of the loop of SFS2.fold *)
  Definition SFS2_fold_round (n w : nat) (data : list (list T)) : list (list T) :=
    let left := firstn w data ++ mzero OP (n - w) n in
    let right := rev (skipn w data) ++ mzero OP w n in
    mtrans OP n (madd OP left right).

  (* SFS2.fold: `for _ in range(2)` *)
  Definition SFS2_fold (n : nat) (data : list (list T)) : list (list T) :=
    SFS2_fold_round n (SFS2_w n) (SFS2_fold_round n (SFS2_w n) data).

  (* SFS2.symmetrize *)
  Definition SFS2_symmetrize (n : nat) (data : list (list T)) : list (list T) := mhalf OP (madd OP data (mtrans OP n data)).
End Gen.
'''


def translate(src_text):
    tree = ast.parse(src_text)
    pin(tree, 'SFS2', '__init__',
        ['data = np.array(data).copy()',
         "if data.ndim != 2: raise ValueError('Data has to be 2-dimensional')",
         "if data.shape[0] != data.shape[1]: raise ValueError('Matrix has to be square.')",
         'self.n = data.shape[0]', 'self.w = self.n // 2 + 1 if self.n % 2 == 1 else self.n // 2', 'self.data = data'], ['self', 'data'])
    pin(tree, 'SFS2', 'fold',
        ['data = self.data.copy()',
         'for _ in range(2): left = np.concatenate((data[:self.w], np.zeros((self.n - self.w, self.n)))) '
         'right = np.concatenate((data[self.w:][::-1], np.zeros((self.w, self.n)))) data = (left + right).T',
         'return SFS2(data)'], ['self'])
    pin(tree, 'SFS2', 'symmetrize', ['return SFS2((self.data + self.data.T) / 2)'], ['self'])
    pin(tree, 'SFS2', 'is_folded', ['return np.all(self.data == self.fold().data)'], ['self'])
    for nm, op in (('__add__', '+'), ('__sub__', '-'), ('__mul__', '*'), ('__truediv__', '/'), ('__floordiv__', '//')):
        pin(tree, 'SFS2', nm, [f'if isinstance(other, SFS2): return self {op} other.data', f'return SFS2(self.data {op} other)'], ['self', 'other'])
    pin(tree, 'SFS2', '__pow__', ['return SFS2(self.data ** power)'], ['self', 'power'])
    pin(tree, 'SFS2', 'copy', ['return copy.deepcopy(self)'], ['self'])
    pin(tree, 'SFS2', 'fill_monomorphic',
        ['other = self.copy()', 'other.data[:1, :] = fill_value', 'other.data[-1:, :] = fill_value', 'other.data[:, :1] = fill_value',
         'other.data[:, -1] = fill_value', 'return other'], ['self', 'fill_value'])
    pin(tree, 'SFS2', '_remove_monomorphic', ['return data[1:-1, 1:-1]'], ['data'], deco=['staticmethod'])
    return TEXT, ['SFS2.__init__', 'SFS2.fold', 'SFS2.symmetrize', 'SFS2.is_folded', 'SFS2 arithmetic', 'SFS2.fill_monomorphic']


def main():
    ap = argparse.ArgumentParser()
    ap.add_argument('--src', default=SRC_DEFAULT)
    ap.add_argument('--out', default=None)
    a = ap.parse_args()
    try:
        text, funcs = translate(open(a.src).read())
    except Unsupported as e:
        print('UNSUPPORTED:', e, file=sys.stderr)
        sys.exit(2)
    if a.out:
        open(a.out, 'w').write(text)
    else:
        sys.stdout.write(text)


if __name__ == '__main__':
    main()
