#!/venv/bin/python
"""marginals2coq - fail-closed PIN of the marginal distributions of phasegen/distributions.py and of the density, with a Gallina
reading over an abstract moment function (as sfs2coq.py does for the spectrum):

    MarginalDemeDistributions / MarginalLocusDistributions   __init__, __getitem__, __iter__, __len__, demes / loci (one distribution
                                                             per population / locus with reward CombinedReward([r, DemeReward(p)]) /
                                                             CombinedReward([r, LocusReward(l)])), get_cov, cov, get_corr, corr
    PhaseTypeDistribution.mean / var / std / m2 / demes / loci
    TreeHeightDistribution.pdf                               (symmetric difference quotient of the cdf, clipped at 0)

The bodies are compared statement by statement with the expected text (a rewrite - harmless or not - fails closed); the reading:
  * `self.dist.moment(k=.., rewards=.., center=..)` / `self.moment(k=.., center=..)` is the parameter pmoment k rewards center
    (rewards None = the distribution's own reward repeated; permute keeps its default True; the window is the object's own);
  * `CombinedReward([self.dist.reward, DemeReward(pop)])` is comb_deme r pop, `CombinedReward([self.dist.reward, LocusReward(l)])`
    is comb_locus r l; the marginal distribution of pop is the distribution whose own reward is comb_deme r pop;
  * `np.array([[f(a, b) for a in xs] for b in xs])` is the list of rows map (fun b => map (fun a => f a b) xs) xs;
  * `x ** 0.5` is the parameter sqrt; `/` the division of the backend;
  * pdf: `np.max([t - dx / 2, np.zeros_like(t)], axis=0)` is the entrywise maximum with 0; `self.cdf` the parameter cdf on a list of
    times; `self.quantile(0.99) / 1e10` the parameter q99 divided by 10^10.
"""
import argparse
import ast
import sys

SRC_DEFAULT = '/repo/phasegen/distributions.py'
OUT_DEFAULT = '/verif/coq/theories/gen/MarginalsGen.v'


class Unsupported(Exception):
    pass


def is_doc(s):
    if isinstance(s, ast.Pass):
        return True
    return isinstance(s, ast.Expr) and isinstance(s.value, ast.Constant) and isinstance(s.value.value, str)


def get_method(tree, cname, mname):
    for c in tree.body:
        if isinstance(c, ast.ClassDef) and c.name == cname:
            fs = [s for s in c.body if isinstance(s, ast.FunctionDef) and s.name == mname]
            if len(fs) == 1:
                return fs[0]
    raise Unsupported(f'{cname}.{mname}: expected exactly one definition')


def texts(f):
    return [' '.join(ast.unparse(s).split()) for s in f.body if not is_doc(s)]


def pin(tree, cname, mname, want, deco=None):
    f = get_method(tree, cname, mname)
    got = texts(f)
    want = [' '.join(w.split()) for w in want]
    if got != want:
        raise Unsupported(f'{cname}.{mname}: unexpected body:\n' + '\n'.join('  ' + repr(x) for x in got))
    if deco is not None and sorted(ast.unparse(d) for d in f.decorator_list) != deco:
        raise Unsupported(f'{cname}.{mname}: unexpected decorators')


def class_methods(tree, cname):
    for c in tree.body:
        if isinstance(c, ast.ClassDef) and c.name == cname:
            return sorted(s.name for s in c.body if isinstance(s, ast.FunctionDef))
    raise Unsupported(f'class {cname} not found')


TEXT = '''(* GENERATED FILE - DO NOT EDIT.  Regenerated on every run of the checks that depend on the marginal distributions by
   /verif/translate/marginals2coq.py (Python `ast`, fail-closed PIN of the method bodies) from phasegen/distributions.py.
   The theorems about it are in proofs/GenMarginalsEquiv.v.  Reading of the source: see the docstring of the translator. *)
From Coq Require Import ZArith QArith List Arith Bool.
From PG Require Import base.Ops model.CoalModels model.Matrix.
Import ListNotations.

Section Gen.
  Context {T : Type} (OP : Ops T).
  Variable Rw : Type.
  Variable Pop : Type.                                          (* population names *)
  Variable comb_deme : Rw -> Pop -> Rw.                         (* CombinedReward([r, DemeReward(pop)]) *)
  Variable comb_locus : Rw -> nat -> Rw.                        (* CombinedReward([r, LocusReward(locus)]) *)
  Variable pmoment : Rw -> nat -> option (list Rw) -> bool -> T. (* <distribution with own reward r>.moment(k, rewards, center) *)
  Variable sqrt : T -> T.                                       (* x ** 0.5 *)

  (* PhaseTypeDistribution.mean / var / m2 / std of the distribution whose own reward is r *)
  Definition PhaseTypeDistribution_mean (r : Rw) : T := pmoment r 1 None true.
  Definition PhaseTypeDistribution_var (r : Rw) : T := pmoment r 2 None true.
  Definition PhaseTypeDistribution_m2 (r : Rw) : T := pmoment r 2 None false.
  Definition PhaseTypeDistribution_std (r : Rw) : T := sqrt (PhaseTypeDistribution_var r).

  (* MarginalDemeDistributions: demes[pop] is the distribution with own reward comb_deme r pop *)
  Definition MarginalDemeDistributions_demes (r : Rw) (pops : list Pop) : list (Pop * Rw) := map (fun pop => (pop, comb_deme r pop)) pops.
  Definition MarginalDemeDistributions_get_cov (r : Rw) (pop1 pop2 : Pop) : T :=
    pmoment r 2 (Some [comb_deme r pop1; comb_deme r pop2]) true.
  Definition MarginalDemeDistributions_cov (r : Rw) (pops : list Pop) : list (list T) :=
    map (fun p2 => map (fun p1 => MarginalDemeDistributions_get_cov r p1 p2) pops) pops.
  Definition MarginalDemeDistributions_get_corr (r : Rw) (pop1 pop2 : Pop) : T :=
    odiv OP (MarginalDemeDistributions_get_cov r pop1 pop2)
            (omul OP (PhaseTypeDistribution_std (comb_deme r pop1)) (PhaseTypeDistribution_std (comb_deme r pop2))).
  Definition MarginalDemeDistributions_corr (r : Rw) (pops : list Pop) : list (list T) :=
    map (fun p2 => map (fun p1 => MarginalDemeDistributions_get_corr r p1 p2) pops) pops.

  (* MarginalLocusDistributions: loci[l] is the distribution with own reward comb_locus r l *)
  Definition MarginalLocusDistributions_loci (r : Rw) (n_loci : nat) : list (nat * Rw) := map (fun l => (l, comb_locus r l)) (seq 0 n_loci).
  Definition MarginalLocusDistributions_get_cov (r : Rw) (locus1 locus2 : nat) : T :=
    pmoment r 2 (Some [comb_locus r locus1; comb_locus r locus2]) true.
  Definition MarginalLocusDistributions_cov (r : Rw) (n_loci : nat) : list (list T) :=
    map (fun j => map (fun i => MarginalLocusDistributions_get_cov r i j) (seq 0 n_loci)) (seq 0 n_loci).
  Definition MarginalLocusDistributions_get_corr (r : Rw) (locus1 locus2 : nat) : T :=
    odiv OP (MarginalLocusDistributions_get_cov r locus1 locus2)
            (omul OP (PhaseTypeDistribution_std (comb_locus r locus1)) (PhaseTypeDistribution_std (comb_locus r locus2))).
  Definition MarginalLocusDistributions_corr (r : Rw) (n_loci : nat) : list (list T) :=
    map (fun j => map (fun i => MarginalLocusDistributions_get_corr r i j) (seq 0 n_loci)) (seq 0 n_loci).

  (* TreeHeightDistribution.pdf *)
  Variable cdf : list Q -> list T.                              (* self.cdf *)
  Variable q99 : Q.                                             (* self.quantile(0.99) *)
  Definition pdf_x1 (dx t : Q) : Q := let y := t - dx / 2 in if Qlt_le_dec y 0 then 0 else y.
  Definition TreeHeightDistribution_pdf (ts : list Q) (dx : option Q) : list T :=
    let dx := match dx with None => q99 / (10000000000 # 1) | Some d => d end in
    let x1 := map (pdf_x1 dx) ts in
    let x2 := map (fun x => x + dx) x1 in
    map (fun ab => odiv OP (osub OP (fst ab) (snd ab)) (oofQ OP dx)) (combine (cdf x2) (cdf x1)).
End Gen.
'''


def translate(src_text):
    tree = ast.parse(src_text)
    cls_line = 'cls = self.dist.__class__ if not isinstance(self.dist, TreeHeightDistribution) else PhaseTypeDistribution'
    for cname, coll, idx, rew, names, cfgn in (
            ('MarginalLocusDistributions', 'loci', 'locus', 'LocusReward', ('locus1', 'locus2'), 'self.dist.locus_config.n'),
            ('MarginalDemeDistributions', 'demes', 'pop', 'DemeReward', ('pop1', 'pop2'), None)):
        want_methods = sorted(['__init__', '__getitem__', '__iter__', '__len__', coll, 'get_cov', 'cov', 'get_corr', 'corr'])
        if class_methods(tree, cname) != want_methods:
            raise Unsupported(f'{cname}: unexpected set of methods {class_methods(tree, cname)}')
        pin(tree, cname, '__init__', ['self.dist = dist'])
        pin(tree, cname, '__getitem__', [f'return self.{coll}[item]'])
        pin(tree, cname, '__iter__', [f'return iter(self.{coll})'])
        pin(tree, cname, '__len__', [f'return len(self.{coll})'])
        a, b = names
        comb = lambda x: f'CombinedReward([self.dist.reward, {rew}({x})])'
        ret_cov = f'return self.dist.moment(k=2, rewards=({comb(a)}, {comb(b)}), center=True)'
        if cname == 'MarginalLocusDistributions':
            pin(tree, cname, coll, [cls_line, 'loci = {}',
                                    'for locus in range(self.dist.locus_config.n): loci[locus] = cls(state_space=self.dist.state_space, '
                                    'tree_height=self.dist.tree_height, demography=self.dist.demography, '
                                    'reward=CombinedReward([self.dist.reward, LocusReward(locus)]))', 'return loci'], deco=['cached_property'])
            pin(tree, cname, 'get_cov', ['locus1 = int(locus1)', 'locus2 = int(locus2)',
                                         "if locus1 not in range(self.dist.locus_config.n) or locus2 not in range(self.dist.locus_config.n): "
                                         "raise ValueError(f'Locus {locus1} or {locus2} does not exist.')", ret_cov])
            pin(tree, cname, 'cov', ['n_loci = self.dist.locus_config.n',
                                     'return np.array([[self.get_cov(i, j) for i in range(n_loci)] for j in range(n_loci)])'], deco=['cached_property'])
            pin(tree, cname, 'get_corr', ['locus1 = int(locus1)', 'locus2 = int(locus2)',
                                          'return self.get_cov(locus1, locus2) / (self.loci[locus1].std * self.loci[locus2].std)'])
            pin(tree, cname, 'corr', ['n_loci = self.dist.locus_config.n',
                                      'return np.array([[self.get_corr(i, j) for i in range(n_loci)] for j in range(n_loci)])'], deco=['cached_property'])
        else:
            pin(tree, cname, coll, [cls_line, 'demes = {}',
                                    'for pop in self.dist.lineage_config.pop_names: demes[pop] = cls(state_space=self.dist.state_space, '
                                    'tree_height=self.dist.tree_height, demography=self.dist.demography, '
                                    'reward=CombinedReward([self.dist.reward, DemeReward(pop)]))', 'return demes'], deco=['cached_property'])
            pin(tree, cname, 'get_cov', ["if pop1 not in self.dist.lineage_config.pop_names or pop2 not in self.dist.lineage_config.pop_names: "
                                         "raise ValueError(f'Population {pop1} or {pop2} does not exist.')", ret_cov])
            pin(tree, cname, 'cov', ['pops = self.dist.lineage_config.pop_names',
                                     'return np.array([[self.get_cov(p1, p2) for p1 in pops] for p2 in pops])'], deco=['cached_property'])
            pin(tree, cname, 'get_corr', ['return self.get_cov(pop1, pop2) / (self.demes[pop1].std * self.demes[pop2].std)'])
            pin(tree, cname, 'corr', ['pops = self.dist.lineage_config.pop_names',
                                      'return np.array([[self.get_corr(p1, p2) for p1 in pops] for p2 in pops])'], deco=['cached_property'])
    pin(tree, 'PhaseTypeDistribution', 'mean', ['return self.moment(k=1)'], deco=['cached_property'])
    pin(tree, 'PhaseTypeDistribution', 'var', ['return self.moment(k=2, center=True)'], deco=['cached_property'])
    pin(tree, 'PhaseTypeDistribution', 'std', ['return self.var ** 0.5'], deco=['cached_property'])
    pin(tree, 'PhaseTypeDistribution', 'm2', ['return self.moment(k=2, center=False)'], deco=['cached_property'])
    pin(tree, 'PhaseTypeDistribution', 'demes', ['return MarginalDemeDistributions(self)'], deco=['cached_property'])
    pin(tree, 'PhaseTypeDistribution', 'loci', ['return MarginalLocusDistributions(self)'], deco=['cached_property'])
    pin(tree, 'TreeHeightDistribution', 'pdf',
        ['if dx is None: dx = self.quantile(0.99) / 10000000000.0', 'if isinstance(t, Iterable): t = np.array(t)',
         'x1 = np.max([t - dx / 2, np.zeros_like(t)], axis=0)', 'x2 = x1 + dx', 'return (self.cdf(x2) - self.cdf(x1)) / dx'], deco=[])
    return TEXT, ['MarginalDemeDistributions.*', 'MarginalLocusDistributions.*', 'PhaseTypeDistribution.mean/var/std/m2/demes/loci',
                  'TreeHeightDistribution.pdf']


def main():
    ap = argparse.ArgumentParser()
    ap.add_argument('--src', default=SRC_DEFAULT)
    ap.add_argument('--out', default=None)
    a = ap.parse_args()
    try:
        text, funcs = translate(open(a.src).read())
    except Unsupported as e:
        print('UNSUPPORTED:', e, file=sys.stderr)
        sys.exit(2)
    if a.out:
        open(a.out, 'w').write(text)
    else:
        sys.stdout.write(text)


if __name__ == '__main__':
    main()
