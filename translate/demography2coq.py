#!/venv/bin/python
"""demography2coq - fail-closed translator of the epoch machinery of phasegen/demography.py to Gallina (dictionary level: populations
are names, dictionaries are association lists in insertion order, an epoch is the value `epoch_val` of gen/NpConfigs.v):

    Demography.epochs        (the generator: next candidate epoch from the previous one, all broadcasts, then all applications)
    Demography.get_epochs    (sorted times, wind the generator forward, scatter back), Demography.get_epoch
    DiscreteDemographicEvent._broadcast, DiscreteRateChanges._apply
    Demography._prepare_events (compared textually: stable sort by start time; names sorted)

Reading of the source (trusted base of this translator):
  * an Epoch is read by VALUE (its constructor copies, see the `configs` tie): `e._broadcast(epoch)` / `e._apply(epoch)` mutate only the
    epoch they are given and are functions epoch -> epoch; the events of other classes are abstract (parameters ev_broadcast /
    ev_apply of the generator), the discrete class is translated;
  * the generator `while True: ... yield epoch ... if epoch.end_time == np.inf: break` is the list of the epochs it yields, computed
    with a fuel (more epochs than fuel: the list is cut; the theorems speak about the epochs produced); the statement that warns
    about the number of epochs does not take part; `prev.end_time` is read where it is finite;
  * `iterator = self.epochs; epoch = next(iterator)` pops the list of epochs (StopIteration is not modelled: the last epoch is infinite);
    a `while` loop that pops the iterator is a structural recursion on the remaining epochs;
  * `a <= x < b` is the conjunction; times are exact rationals, np.inf is None; `self.times[mask]` keeps the times for which the mask
    holds, in order (the times of an event are ascending); `d |= d'` replaces the values of the keys of d' that d has and appends the
    others; `self.pop_sizes[t]` / `self.migration_rates[t]` are looked up by the time;
  * np.sort / np.argsort(np.argsort(.., kind='stable')) are sortK / inv_perm (argsort ..) of base/Perm.v; `epochs[i] = epoch` in
    `for i, time in enumerate(t_sorted)` is a list update; `np.zeros_like(t_sorted, dtype=Epoch)` is an array of placeholders.
"""
import argparse
import ast
import sys

SRC_DEFAULT = '/repo/phasegen/demography.py'
OUT_DEFAULT = '/verif/coq/theories/gen/DemographyGen.v'


class Unsupported(Exception):
    pass


def fail(node, msg):
    raise Unsupported(f'line {getattr(node, "lineno", "?")}: {msg}')


def is_doc(s):
    if isinstance(s, ast.Pass):
        return True
    return isinstance(s, ast.Expr) and isinstance(s.value, ast.Constant) and isinstance(s.value.value, str)


def get_method(tree, cname, mname):
    for c in tree.body:
        if isinstance(c, ast.ClassDef) and c.name == cname:
            fs = [s for s in c.body if isinstance(s, ast.FunctionDef) and s.name == mname]
            if len(fs) == 1:
                return fs[0]
    raise Unsupported(f'{cname}.{mname}: expected exactly one definition')


def body(f):
    return [s for s in f.body if not is_doc(s)]


def texts(stmts):
    return [ast.unparse(s) for s in stmts]


# ---------------------------------------------------------------------------------------------- masks over self.times
def mask(n, ep):
    """boolean mask over `self.times`, as a predicate of one time t_"""
    if isinstance(n, ast.BinOp) and isinstance(n.op, ast.BitAnd):
        return f'({mask(n.left, ep)} && {mask(n.right, ep)})'
    if isinstance(n, ast.Compare) and len(n.ops) == 1:
        l, r, op = ast.unparse(n.left), ast.unparse(n.comparators[0]), n.ops[0]
        def side(x):
            if x == 'self.times':
                return ('t_', 'Q')
            if x == f'{ep}.start_time':
                return (f'(ev_start {ep})', 'Q')
            if x == f'{ep}.end_time':
                return (f'(ev_end {ep})', 'optQ')
            if x == '0':
                return ('0', 'Q')
            fail(n, 'operand of a mask: ' + x)
        a, b = side(l), side(r)
        if a[1] == b[1] == 'Q':
            if isinstance(op, ast.Lt):
                return f'(Qlt_bool {a[0]} {b[0]})'
            if isinstance(op, ast.LtE):
                return f'(Qle_bool {a[0]} {b[0]})'
            if isinstance(op, ast.Gt):
                return f'(Qlt_bool {b[0]} {a[0]})'
        if a[1] == 'Q' and b[1] == 'optQ':
            if isinstance(op, ast.Lt):
                return f'(lt_end {a[0]} {b[0]})'
            if isinstance(op, ast.LtE):
                return f'(le_end {a[0]} {b[0]})'
        fail(n, 'comparison in a mask: ' + ast.unparse(n))
    fail(n, 'mask ' + ast.unparse(n))


def subscript_mask(n, ep):
    if isinstance(n, ast.Subscript) and ast.unparse(n.value) == 'self.times':
        return f'(filter (fun t_ => {mask(n.slice, ep)}) self_times)'
    fail(n, 'expected self.times[mask]')


HEADER = '''(* GENERATED FILE - DO NOT EDIT.  Regenerated on every run of the checks that depend on the epoch machinery by
   /verif/translate/demography2coq.py (Python `ast`, fail-closed) from phasegen/demography.py.
   The theorems about it are in proofs/GenDemographyEquiv.v.
   Reading of the source: see the docstring of the translator. *)
From Coq Require Import String.
From Coq Require Import ZArith QArith List Arith Bool.
From PG Require Import base.Perm model.Loop gen.NpConfigs gen.ConfigsGen gen.NpDemography.
Import ListNotations.
Local Open Scope list_scope.

'''


def translate(src_text):
    tree = ast.parse(src_text)
    out = []
    # ---- _prepare_events (textual)
    f = get_method(tree, 'Demography', '_prepare_events')
    want = ['self.events = sorted(self.events, key=lambda e: e.start_time)',
            'self.pop_names = sorted(list(set([p for e in self.events for p in e.pop_names])))', 'self.n_pops = len(self.pop_names)']
    if texts(body(f)) != want:
        fail(f, '_prepare_events: unexpected body')
    # ---- DiscreteDemographicEvent._broadcast
    f = get_method(tree, 'DiscreteDemographicEvent', '_broadcast')
    b = body(f)
    if not ([a.arg for a in f.args.args] == ['self', 'epoch'] and len(b) == 2 and isinstance(b[0], (ast.Assign, ast.AnnAssign)) and isinstance(b[1], ast.If)
            and ast.unparse(b[0].targets[0] if isinstance(b[0], ast.Assign) else b[0].target) == 'times'
            and ast.unparse(b[1].test) == 'len(times)' and not b[1].orelse and texts(body(b[1])) == ['epoch.end_time = times[0]']):
        fail(f, 'DiscreteDemographicEvent._broadcast: unexpected statement structure')
    flt = subscript_mask(b[0].value, 'epoch')
    out.append('(* DiscreteDemographicEvent._broadcast: the first change time inside (start, end] that is > 0 becomes the end *)\n'
               'Definition DiscreteDemographicEvent_broadcast (self_times : list Q) (epoch : epoch_val) : epoch_val :=\n'
               f'  let times := {flt} in\n'
               '  match times with [] => epoch | t0 :: _ => set_ev_end epoch (Some t0) end.\n')
    # ---- DiscreteRateChanges._apply
    f = get_method(tree, 'DiscreteRateChanges', '_apply')
    b = body(f)
    if not ([a.arg for a in f.args.args] == ['self', 'epoch'] and len(b) == 1 and isinstance(b[0], ast.For) and ast.unparse(b[0].target) == 't'
            and texts(body(b[0])) == ['epoch.pop_sizes |= self.pop_sizes[t]', 'epoch.migration_rates |= self.migration_rates[t]'] and not b[0].orelse):
        fail(f, 'DiscreteRateChanges._apply: unexpected statement structure')
    flt = subscript_mask(b[0].iter, 'epoch')
    out.append('(* DiscreteRateChanges._apply: every change with start <= t < end, in ascending time; later values replace earlier ones *)\n'
               'Definition DiscreteRateChanges_apply (self_times : list Q) (self_pop_sizes : list (Q * list (string * Q)))\n'
               '           (self_migration_rates : list (Q * list (string * string * Q))) (epoch : epoch_val) : epoch_val :=\n'
               f'  fold_left (fun epoch t =>\n'
               '    let epoch := set_ev_sizes epoch (sizes_union (ev_sizes epoch) (time_get t self_pop_sizes)) in\n'
               '    set_ev_mig epoch (mig_union (ev_mig epoch) (time_get t self_migration_rates)))\n'
               f'    {flt.replace("epoch", "epoch")} epoch.\n')
    # ---- Demography.epochs
    f = get_method(tree, 'Demography', 'epochs')
    if sorted(ast.unparse(d) for d in f.decorator_list) != ['property']:
        fail(f, 'Demography.epochs: expected a property')
    b = body(f)
    ok = len(b) == 4 and texts(b[:1]) == ['self._prepare_events()'] and ast.unparse(b[2]) == 'i = 0' and isinstance(b[3], ast.While) \
        and ast.unparse(b[3].test) == 'True' and not b[3].orelse
    want_prev = ('prev = Epoch(start_time=0, end_time=0, pop_sizes={p: 1 for p in self.pop_names}, '
                 'migration_rates={k: 0 for k in itertools.product(self.pop_names, repeat=2)})')
    if not ok or ast.unparse(b[1]) != want_prev:
        fail(f, 'Demography.epochs: unexpected prologue')
    lb = body(b[3])
    if not (lb and isinstance(lb[0], ast.If) and ast.unparse(lb[0].test) == 'i == self.warn_n_epochs and (not self._issued_warning)'):
        fail(b[3], 'Demography.epochs: the loop must start with the warning about the number of epochs')
    want_loop = ['epoch = Epoch(start_time=prev.end_time, end_time=np.inf, pop_sizes=prev.pop_sizes, migration_rates=prev.migration_rates)',
                 'for e in self.events:\n    e._broadcast(epoch)', '[e._apply(epoch) for e in self.events]', 'yield epoch', 'prev = epoch',
                 'if epoch.end_time == np.inf:\n    break', 'i += 1']
    if texts(lb[1:]) != want_loop:
        raise Unsupported('Demography.epochs: unexpected loop body:\n' + '\n'.join('  ' + repr(x) for x in texts(lb[1:])))
    out.append('(* Demography.epochs: the epochs the generator yields (at most `fuel` of them), for events whose classes provide ev_broadcast /\n'
               '   ev_apply; the candidate epoch starts where the previous one ends, ALL events broadcast first, THEN all are applied *)\n'
               'Section Generator.\n  Variable Ev : Type.\n  Variable ev_broadcast : Ev -> epoch_val -> epoch_val.\n  Variable ev_apply : Ev -> epoch_val -> epoch_val.\n'
               '  Variable events : list Ev.                 (* self.events after _prepare_events *)\n'
               '  Fixpoint Demography_epochs_loop (fuel : nat) (prev : epoch_val) : list epoch_val :=\n'
               '    match fuel with\n    | O => []\n    | S fuel\' =>\n'
               '        let epoch := Epoch_init (fin_end prev) None (Some (ev_sizes prev)) (Some (ev_mig prev)) in\n'
               '        let epoch := fold_left (fun epoch e => ev_broadcast e epoch) events epoch in\n'
               '        let epoch := fold_left (fun epoch e => ev_apply e epoch) events epoch in\n'
               '        epoch :: (if is_inf (ev_end epoch) then [] else Demography_epochs_loop fuel\' epoch)\n    end.\n'
               '  Definition Demography_epochs (pop_names : list string) (fuel : nat) : list epoch_val :=\n'
               '    Demography_epochs_loop fuel\n'
               '      (Epoch_init 0 (Some 0) (Some (map (fun p => (p, 1%Q)) pop_names))\n'
               '                  (Some (map (fun k => (k, 0%Q)) (list_prod pop_names pop_names)))).\nEnd Generator.\n')
    # ---- get_epochs
    f = get_method(tree, 'Demography', 'get_epochs')
    want = ['t = list(t)', 't_sorted: Sequence[float] = np.sort(t)', 'iterator: Iterator[Epoch] = self.epochs', 'epoch = next(iterator)',
            'epochs = np.zeros_like(t_sorted, dtype=Epoch)',
            'for i, time in enumerate(t_sorted):\n    while not epoch.start_time <= time < epoch.end_time:\n        epoch = next(iterator)\n    epochs[i] = epoch',
            "return np.array(epochs[np.argsort(np.argsort(t, kind='stable'))])"]
    if texts(body(f)) != want:
        raise Unsupported('Demography.get_epochs: unexpected body:\n' + '\n'.join('  ' + repr(x) for x in texts(body(f))))
    out.append('(* Demography.get_epochs over the list of epochs the generator yields *)\n'
               'Section GetEpochs.\n  Variable time : Q.\n'
               '  Fixpoint get_epochs_while (iterator : list epoch_val) (epoch : epoch_val) {struct iterator} : list epoch_val * epoch_val :=\n'
               '    if negb (Qle_bool (ev_start epoch) time && lt_end time (ev_end epoch)) then\n'
               '      match iterator with\n      | [] => (iterator, epoch)\n      | epoch\' :: iterator\' => get_epochs_while iterator\' epoch\'\n      end\n'
               '    else (iterator, epoch).\nEnd GetEpochs.\n'
               'Definition Demography_get_epochs (self_epochs : list epoch_val) (t : list Q) : list epoch_val :=\n'
               '  let t_sorted := sortK Qleb t in\n'
               '  match self_epochs with\n  | [] => []\n  | epoch :: iterator =>\n'
               '      let epochs := repeat ev_placeholder (length t_sorted) in\n'
               "      let '(_, _, epochs) := fold_left (fun acc it_ =>\n"
               "          let '(iterator, epoch, epochs) := acc in\n          let '(i, time) := it_ in\n"
               "          let '(iterator, epoch) := get_epochs_while time iterator epoch in\n"
               '          (iterator, epoch, upd_at epochs i epoch)) (combine (seq 0 (length t_sorted)) t_sorted) (iterator, epoch, epochs) in\n'
               '      gather ev_placeholder epochs (inv_perm (argsort Qleb t))\n  end.\n')
    g = get_method(tree, 'Demography', 'get_epoch')
    if texts(body(g)) != ['return self.get_epochs([t])[0]']:
        fail(g, 'Demography.get_epoch: unexpected body')
    out.append('(* Demography.get_epoch *)\nDefinition Demography_get_epoch (self_epochs : list epoch_val) (t : Q) : epoch_val :=\n'
               '  nth 0 (Demography_get_epochs self_epochs [t]) ev_placeholder.\n')
    return HEADER + '\n'.join(out), ['Demography.epochs', 'Demography.get_epochs', 'Demography.get_epoch', 'Demography._prepare_events',
                                     'DiscreteDemographicEvent._broadcast', 'DiscreteRateChanges._apply']


def main():
    ap = argparse.ArgumentParser()
    ap.add_argument('--src', default=SRC_DEFAULT)
    ap.add_argument('--out', default=None)
    a = ap.parse_args()
    try:
        text, funcs = translate(open(a.src).read())
    except Unsupported as e:
        print('UNSUPPORTED:', e, file=sys.stderr)
        sys.exit(2)
    if a.out:
        open(a.out, 'w').write(text)
    else:
        sys.stdout.write(text)


if __name__ == '__main__':
    main()
