#!/venv/bin/python
"""expm2coq - fail-closed PIN of phasegen/expm.py: which matrix exponential `Backend.expm` - the parameter `expm` of every other reading
(loops2coq, search2coq, the analysis theorems assume of it only `expm A = exp(A)` on well-formed matrices) - denotes by default:

    Backend.backend              the class attribute, `SciPyExpmBackend()` (precision np.float64 by default)
    Backend.expm(m)              cls.backend.compute(m)
    Backend.register(backend)    cls.backend = backend
    SciPyExpmBackend.compute(m)  scipy.linalg.expm(m.astype(self.precision))
    TensorFlowExpmBackend / JaxExpmBackend.compute   bodies pinned only (optional dependencies, not installed here)

Reading: with a registered backend b, `Backend.expm m = b m`; the default b is SciPy's expm in binary64. That SciPy's expm approximates the
real matrix exponential is NOT derived (trusted; D16 / D18 are findings about its accuracy on ill-conditioned Van Loan matrices).
The bodies are compared statement by statement with the expected text (a rewrite - harmless or not - fails closed).
"""
import argparse
import ast
import sys

SRC_DEFAULT = '/repo/phasegen/expm.py'
OUT_DEFAULT = '/verif/coq/theories/gen/ExpmGen.v'


class Unsupported(Exception):
    pass


def is_doc(s):
    if isinstance(s, ast.Pass):
        return True
    return isinstance(s, ast.Expr) and isinstance(s.value, ast.Constant) and isinstance(s.value.value, str)


def get_class(tree, cname):
    cs = [c for c in tree.body if isinstance(c, ast.ClassDef) and c.name == cname]
    if len(cs) != 1:
        raise Unsupported(f'{cname}: expected exactly one class')
    return cs[0]


def pin(tree, cname, mname, want, args, deco=()):
    c = get_class(tree, cname)
    f = [s for s in c.body if isinstance(s, ast.FunctionDef) and s.name == mname]
    if len(f) != 1:
        raise Unsupported(f'{cname}.{mname}: expected exactly one definition')
    f = f[0]
    got = [' '.join(ast.unparse(s).split()) for s in f.body if not is_doc(s)]
    want = [' '.join(w.split()) for w in want]
    if got != want:
        raise Unsupported(f'{cname}.{mname}: unexpected body:\n' + '\n'.join('  ' + repr(x) for x in got))
    if [a.arg for a in f.args.args] != args or sorted(ast.unparse(d) for d in f.decorator_list) != sorted(deco):
        raise Unsupported(f'{cname}.{mname}: unexpected parameters / decorators')
    return f


TEXT = '''(* GENERATED FILE - DO NOT EDIT.  Regenerated on every run of the checks that depend on the matrix exponential by
   /verif/translate/expm2coq.py (Python `ast`, fail-closed PIN of the method bodies) from phasegen/expm.py.
   The theorems about it are in proofs/GenExpmEquiv.v.  Reading of the source: see the docstring of the translator. *)
Section Gen.
  Variable M : Type.                       (* matrices in binary64 *)
  Variable scipy_linalg_expm : M -> M.     (* scipy.linalg.expm on float64 input: trusted *)

  (* the class attribute Backend.backend as a state; register replaces it *)
  Definition backend := M -> M.
  Definition SciPyExpmBackend_compute : backend := fun m => scipy_linalg_expm m.
  Definition Backend_default : backend := SciPyExpmBackend_compute.
  Definition Backend_register (current new : backend) : backend := new.
  Definition Backend_expm (current : backend) (m : M) : M := current m.
End Gen.
'''


def translate(src_text):
    tree = ast.parse(src_text)
    c = get_class(tree, 'Backend')
    attrs = [' '.join(ast.unparse(s).split()) for s in c.body if isinstance(s, (ast.Assign, ast.AnnAssign))]
    if attrs != ['backend: ExpmBackend = SciPyExpmBackend()']:
        raise Unsupported(f'Backend: unexpected class attributes {attrs}')
    pin(tree, 'Backend', 'expm', ['return cls.backend.compute(m)'], ['cls', 'm'], deco=['classmethod', 'abstractmethod'])
    pin(tree, 'Backend', 'register', ['cls.backend = backend'], ['cls', 'backend'], deco=['classmethod'])
    f = pin(tree, 'SciPyExpmBackend', '__init__', ['self.precision = precision'], ['self', 'precision'])
    if [ast.unparse(d) for d in f.args.defaults] != ['np.float64']:
        raise Unsupported('SciPyExpmBackend.__init__: the default precision is not np.float64')
    pin(tree, 'SciPyExpmBackend', 'compute', ['return scipy.linalg.expm(m.astype(self.precision))'], ['self', 'm'])
    pin(tree, 'TensorFlowExpmBackend', 'compute',
        ['import tensorflow as tf', 'return tf.linalg.expm(tf.convert_to_tensor(m, dtype=tf.float64)).numpy()'], ['self', 'm'])
    pin(tree, 'JaxExpmBackend', 'compute', ['import jax', 'return jax.scipy.linalg.expm(m, max_squarings=self.max_squarings)'], ['self', 'm'])
    imps = {' '.join(ast.unparse(s).split()) for s in tree.body if isinstance(s, (ast.Import, ast.ImportFrom))}
    for need in ('import scipy', 'import numpy as np'):
        if need not in imps:
            raise Unsupported(f'missing import: {need}')
    return TEXT, ['Backend.backend', 'Backend.expm', 'Backend.register', 'SciPyExpmBackend.__init__', 'SciPyExpmBackend.compute']


def main():
    ap = argparse.ArgumentParser()
    ap.add_argument('--src', default=SRC_DEFAULT)
    ap.add_argument('--out', default=None)
    a = ap.parse_args()
    try:
        text, funcs = translate(open(a.src).read())
    except Unsupported as e:
        print('UNSUPPORTED:', e, file=sys.stderr)
        sys.exit(2)
    if a.out:
        open(a.out, 'w').write(text)
    else:
        sys.stdout.write(text)


if __name__ == '__main__':
    main()
