#!/venv/bin/python
"""inference2coq - fail-closed translator of the result bookkeeping of phasegen/inference.py to Gallina:

    Inference._run      (from `results` on: choice of the best run, the attributes it sets)
    Inference.add_run, add_runs, add_bootstrap, add_bootstraps

Reading of the source (trusted base of this translator):
  * the object is the record `isrc` of gen/NpInference.v: the model record of model/Inference.v (bounds, start values, params_inferred,
    loss_inferred, loss_runs, bootstraps) together with `result` and - as the parameters it was built from - `dist_inferred`
    (`self.get_coal(**p)` is the distribution OF p; copying `inference.dist_inferred` copies what that object holds);
  * a parameter dictionary labelled with the keys of x0 in their order is the vector of its values (`dict(zip(list(self.x0.keys()),
    self.result.x))` is `result.x`); `results` (the outcome of the ordered parallel map over the start points) is a non-empty list of
    optimiser results (x, fun, success); `min(results, key=lambda result: result.fun)` is the FIRST minimal element;
  * `np.append(a, b)` is a ++ b, `np.array([r.fun for r in results])` is the list of the losses;
    `self.bootstraps.loc[len(self.bootstraps)] = data` appends one row;
  * `x is None` tests an `option`; `a < b` on losses is the comparison of rationals; a method that raises returns None;
  * `isinstance(data, dict)` / `isinstance(data, Inference)` select the constructor of the argument (BDict / BInference; the final
    `else: raise` is unreachable for a typed argument); the call `self.add_bootstrap(data.params_inferred)` passes a dictionary (or
    None, which then raises) and is the dictionary branch of the same method;
  * counting and logging statements (n_success, `_logger.*`) do not take part.
"""
import argparse
import ast
import sys

SRC_DEFAULT = '/repo/phasegen/inference.py'
OUT_DEFAULT = '/verif/coq/theories/gen/InferenceGen.v'

FIELDS = {'result': ('s_result', 'optres'), 'params_inferred': ('s_params', 'optP'), 'loss_inferred': ('s_loss', 'optQ'),
          'loss_runs': ('s_loss_runs', 'qlist'), 'dist_inferred': ('s_dist', 'optP'), 'bootstraps': ('s_boot', 'rows')}


class Unsupported(Exception):
    pass


def fail(node, msg):
    raise Unsupported(f'line {getattr(node, "lineno", "?")}: {msg}')


def is_doc(s):
    if isinstance(s, ast.Pass):
        return True
    if isinstance(s, ast.Expr) and isinstance(s.value, ast.Constant) and isinstance(s.value.value, str):
        return True
    if isinstance(s, ast.Expr) and isinstance(s.value, ast.Call):
        f, parts = s.value.func, []
        while isinstance(f, ast.Attribute):
            parts.append(f.attr)
            f = f.value
        if isinstance(f, ast.Name):
            parts.append(f.id)
            parts = parts[::-1]
            if parts[:2] == ['self', '_logger'] and parts[-1] in ('debug', 'info', 'warning', 'error', 'critical'):
                return True
    return False


def chain(n):
    out = []
    while isinstance(n, ast.Attribute):
        out.append(n.attr)
        n = n.value
    if isinstance(n, ast.Name):
        out.append(n.id)
        return '.'.join(out[::-1])
    return None


def get_method(cls, mname):
    fs = [s for s in cls.body if isinstance(s, ast.FunctionDef) and s.name == mname]
    if len(fs) != 1:
        raise Unsupported(f'Inference.{mname}: expected exactly one definition')
    return fs[0]


class Fn:
    def __init__(self):
        self.n = 0
        self.skipped = []

    def fresh(self, b):
        self.n += 1
        return f'{b}_{self.n}'

    def field(self, obj_term, name, node):
        if name not in FIELDS:
            fail(node, f'attribute {name} is not part of the bookkeeping record')
        acc, ty = FIELDS[name]
        return (f'({acc} {obj_term})', ty)

    def expr(self, n, env):
        if isinstance(n, ast.Attribute) and isinstance(n.value, ast.Name) and n.value.id in env and env[n.value.id][1] == 'isrc':
            return self.field(env[n.value.id][0], n.attr, n)
        if isinstance(n, ast.Attribute) and isinstance(n.value, ast.Attribute):
            # self.result.x / self.result.fun
            c = chain(n)
            if c in ('self.result.x', 'self.result.fun'):
                r = self.expr(n.value, env)
                if r[1] != 'optres':
                    fail(n, 'self.result is not a result')
                return (f'(res_{n.attr} {r[0]})', 'optP' if n.attr == 'x' else 'optQ')
        if isinstance(n, ast.Name) and n.id in env:
            return env[n.id]
        if isinstance(n, ast.Call):
            c = chain(n.func)
            kw = {k.arg: k.value for k in n.keywords}
            if c == 'np.append' and len(n.args) == 2 and not kw:
                a, b = self.expr(n.args[0], env), self.expr(n.args[1], env)
                if a[1] == b[1] == 'qlist':
                    return (f'({a[0]} ++ {b[0]})', 'qlist')
            if c == 'min' and len(n.args) == 1 and set(kw) == {'key'} and ast.unparse(kw['key']) == 'lambda result: result.fun':
                a = self.expr(n.args[0], env)
                if a[1] == 'results':
                    return (f'(Some (min_first {a[0]}))', 'optres')
            if c == 'np.array' and len(n.args) == 1 and not kw and ast.unparse(n.args[0]) == '[result.fun for result in results]' \
                    and env.get('results', (None, None))[1] == 'results':
                return (f'(map r_fun (results_list {env["results"][0]}))', 'qlist')
            if c == 'dict' and len(n.args) == 1 and not kw and ast.unparse(n.args[0]) == 'zip(list(self.x0.keys()), self.result.x)':
                return self.expr(ast.parse('self.result.x', mode='eval').body, env)
            if c == 'self.get_coal' and not n.args and len(n.keywords) == 1 and n.keywords[0].arg is None \
                    and ast.unparse(n.keywords[0].value) == 'self.params_inferred':
                return self.expr(n.keywords[0].value, env)
        fail(n, 'expression ' + ast.unparse(n)[:80])

    def cond(self, n, env):
        if isinstance(n, ast.BoolOp) and isinstance(n.op, ast.Or) and len(n.values) == 2:
            # `a is None or b < a`
            l, r = n.values
            if isinstance(l, ast.Compare) and isinstance(l.ops[0], ast.Is) and isinstance(r, ast.Compare) and isinstance(r.ops[0], ast.Lt) \
                    and ast.unparse(l.left) == ast.unparse(r.comparators[0]):
                a, b = self.expr(l.left, env), self.expr(r.left, env)
                if a[1] == b[1] == 'optQ':
                    return f'(none_or_lt {a[0]} {b[0]})'
        fail(n, 'condition ' + ast.unparse(n))

    def block(self, stmts, env, k):
        stmts = [s for s in stmts if not is_doc(s)]
        if not stmts:
            return k(env)
        s, rest = stmts[0], stmts[1:]
        nxt = lambda e: self.block(rest, e, k)
        txt = ast.unparse(s)
        if txt.startswith('n_success = ') or (isinstance(s, ast.If) and ast.unparse(s.test) == 'n_success < self.n_runs' and all(is_doc(x) for x in s.body)):
            self.skipped.append(f'line {s.lineno}: {txt.splitlines()[0][:60]} (counting / logging)')
            return nxt(env)
        if isinstance(s, ast.Return):
            return k(env)
        # `if X.loss_inferred is None: raise`
        if isinstance(s, ast.If) and not s.orelse and len(s.body) == 1 and isinstance(s.body[0], ast.Raise) and \
                isinstance(s.test, ast.Compare) and isinstance(s.test.ops[0], ast.Is) and ast.unparse(s.test.comparators[0]) == 'None':
            v = self.expr(s.test.left, env)
            if v[1] not in ('optQ', 'optP'):
                fail(s, 'guard on a non-optional value')
            return f'(if is_none {v[0]} then None else\n{nxt(env)})'
        if isinstance(s, ast.Assign) and len(s.targets) == 1 and chain(s.targets[0]) and chain(s.targets[0]).startswith('self.'):
            name = chain(s.targets[0])[5:]
            if name not in FIELDS:
                fail(s, f'store to self.{name}, which is not part of the bookkeeping record')
            v = self.expr(s.value, env)
            if v[1] != FIELDS[name][1]:
                fail(s, f'self.{name} assigned a value of type {v[1]}')
            nv = self.fresh('self')
            return f'(let {nv} := set_{FIELDS[name][0]} {env["self"][0]} {v[0]} in\n{nxt(dict(env, self=(nv, "isrc")))})'
        if isinstance(s, ast.If) and not s.orelse:
            c = self.cond(s.test, env)
            body = self.block(s.body, env, lambda e: e['self'][0])
            nv = self.fresh('self')
            return f'(let {nv} := (if {c} then\n{body}\n else {env["self"][0]}) in\n{nxt(dict(env, self=(nv, "isrc")))})'
        fail(s, 'statement not supported: ' + txt[:80])


HEADER = '''(* GENERATED FILE - DO NOT EDIT.  Regenerated on every run of the checks that depend on the bookkeeping of Inference by
   /verif/translate/inference2coq.py (Python `ast`, fail-closed) from phasegen/inference.py.
   The equivalence with the hand-written model (model/Inference.v) is proved in proofs/GenInferenceEquiv.v.

   Translated: Inference._run (from `results` on), add_run, add_runs, add_bootstrap, add_bootstraps.
   Skipped statements:
%s
   Reading of the source: see the docstring of the translator. *)
From Coq Require Import QArith List Bool.
From PG Require Import model.Inference gen.NpInference.
Import ListNotations.

'''


def translate(src_text):
    tree = ast.parse(src_text)
    cs = [c for c in tree.body if isinstance(c, ast.ClassDef) and c.name == 'Inference']
    if len(cs) != 1:
        raise Unsupported('class Inference: expected exactly one definition')
    cls = cs[0]
    out, skipped = [], []
    # ---- no other method stores the bookkeeping attributes (except __init__, which initialises them, and bootstrap)
    allowed = {'__init__', '_run', 'add_run', 'add_bootstrap', 'bootstrap', '__setstate__'}
    for f in cls.body:
        if isinstance(f, ast.FunctionDef) and f.name not in allowed:
            for n in ast.walk(f):
                tg = n.targets if isinstance(n, ast.Assign) else [n.target] if isinstance(n, (ast.AugAssign, ast.AnnAssign)) else n.targets if isinstance(n, ast.Delete) else []
                for t in tg:
                    for x in (t.elts if isinstance(t, ast.Tuple) else [t]):
                        if isinstance(x, ast.Subscript):
                            x = x.value
                        c = chain(x)
                        if c and c.startswith('self.') and c.split('.')[1] in FIELDS:
                            fail(n, f'Inference.{f.name} stores {c} (outside the translated methods)')
        if isinstance(f, ast.FunctionDef) and f.name in FIELDS and f.name != 'bootstraps':
            fail(f, f'{f.name} is defined as a method / property: the bookkeeping attributes are plain attributes')
    # ---- _run, from `results` on
    f = get_method(cls, '_run')
    body = [s for s in f.body if not is_doc(s)]
    idx = [i for i, s in enumerate(body) if isinstance(s, ast.Assign) and ast.unparse(s.targets[0]) == 'results']
    if len(idx) != 1 or chain(body[idx[0]].value.func) != 'parallelize':
        fail(f, '_run: `results = parallelize(...)` not found')
    call = body[idx[0]].value
    kw = {k.arg: ast.unparse(k.value) for k in call.keywords}
    if kw.get('func') != 'run_sample' or kw.get('data') != '[self.x0] + [{key: sample[key] for key in keys} for sample in samples]':
        fail(call, '_run: the start points must be x0 followed by the samples, mapped by run_sample')
    fn = Fn()
    term = fn.block(body[idx[0] + 1:], {'self': ('self', 'isrc'), 'results': ('results', 'results')}, lambda e: e['self'][0])
    out.append('(* Inference._run, from `results` on (results = head :: tail is non-empty: x0 is always a start point) *)\n'
               'Definition Inference_run_tail (self : isrc) (results : oresult * list oresult) : isrc :=\n' + term + '.\n')
    skipped += ['     _run ' + x for x in fn.skipped]
    # ---- add_run
    f = get_method(cls, 'add_run')
    if [a.arg for a in f.args.args] != ['self', 'inference']:
        fail(f, 'add_run: unexpected signature')
    fn = Fn()
    term = fn.block(f.body, {'self': ('self', 'isrc'), 'inference': ('inference', 'isrc')}, lambda e: f'Some {e["self"][0]}')
    out.append('(* Inference.add_run (None = RuntimeError) *)\nDefinition Inference_add_run (self inference : isrc) : option isrc :=\n' + term + '.\n')
    # ---- add_runs
    f = get_method(cls, 'add_runs')
    if [ast.unparse(s) for s in f.body if not is_doc(s)] != ['for inference in inferences:\n    self.add_run(inference)']:
        fail(f, 'add_runs: unexpected body')
    out.append('(* Inference.add_runs: add_run for each element, in order; the first failure propagates *)\n'
               'Fixpoint Inference_add_runs (self : isrc) (inferences : list isrc) : option isrc :=\n'
               '  match inferences with\n  | [] => Some self\n'
               '  | inference :: rest => match Inference_add_run self inference with Some self_1 => Inference_add_runs self_1 rest | None => None end\n  end.\n')
    # ---- add_bootstrap
    f = get_method(cls, 'add_bootstrap')
    b = [s for s in f.body if not is_doc(s)]
    ok = len(b) == 1 and isinstance(b[0], ast.If) and ast.unparse(b[0].test) == 'isinstance(data, dict)' and len(b[0].orelse) == 1 \
        and isinstance(b[0].orelse[0], ast.If) and ast.unparse(b[0].orelse[0].test) == 'isinstance(data, Inference)'
    if not ok:
        fail(f, 'add_bootstrap: the argument must be dispatched by isinstance(data, dict) / isinstance(data, Inference) / else')
    d_branch = [ast.unparse(s) for s in b[0].body if not is_doc(s)]
    if d_branch != ['self.bootstraps.loc[len(self.bootstraps)] = data']:
        fail(b[0], 'add_bootstrap: the dictionary branch must append exactly one row')
    i_branch = [s for s in b[0].orelse[0].body if not is_doc(s)]
    e_branch = [s for s in b[0].orelse[0].orelse if not is_doc(s)]
    if not (len(e_branch) == 1 and isinstance(e_branch[0], ast.Raise)):
        fail(b[0], 'add_bootstrap: the final else must raise')
    if not (len(i_branch) == 2 and ast.unparse(i_branch[1]) == 'self.add_bootstrap(data.params_inferred)'):
        fail(b[0], 'add_bootstrap: the Inference branch must hand the inferred parameters to the dictionary branch')
    fn = Fn()
    guard = fn.block([i_branch[0]], {'self': ('self', 'isrc'), 'data': ('data', 'isrc')},
                     lambda e: 'match s_params data with Some p => Some (Inference_add_bootstrap_dict self p) | None => None end')
    out.append('(* Inference.add_bootstrap: the dictionary branch, and the Inference branch (None = RuntimeError / ValueError) *)\n'
               'Definition Inference_add_bootstrap_dict (self : isrc) (data : list Q) : isrc := set_s_boot self (s_boot self ++ [data]).\n'
               'Definition Inference_add_bootstrap (self : isrc) (data : boot_arg) : option isrc :=\n'
               '  match data with\n  | BDict p => Some (Inference_add_bootstrap_dict self p)\n  | BInference data =>\n' + guard + '\n  end.\n')
    f = get_method(cls, 'add_bootstraps')
    if [ast.unparse(s) for s in f.body if not is_doc(s)] != ['for d in data:\n    self.add_bootstrap(d)']:
        fail(f, 'add_bootstraps: unexpected body')
    out.append('(* Inference.add_bootstraps *)\n'
               'Fixpoint Inference_add_bootstraps (self : isrc) (data : list boot_arg) : option isrc :=\n'
               '  match data with\n  | [] => Some self\n'
               '  | d :: rest => match Inference_add_bootstrap self d with Some self_1 => Inference_add_bootstraps self_1 rest | None => None end\n  end.\n')
    text = HEADER % '\n'.join(skipped) + '\n'.join(out)
    return text, ['Inference._run', 'Inference.add_run', 'Inference.add_runs', 'Inference.add_bootstrap', 'Inference.add_bootstraps']


def main():
    ap = argparse.ArgumentParser()
    ap.add_argument('--src', default=SRC_DEFAULT)
    ap.add_argument('--out', default=None)
    a = ap.parse_args()
    try:
        text, funcs = translate(open(a.src).read())
    except Unsupported as e:
        print('UNSUPPORTED:', e, file=sys.stderr)
        sys.exit(2)
    if a.out:
        open(a.out, 'w').write(text)
    else:
        sys.stdout.write(text)


if __name__ == '__main__':
    main()
