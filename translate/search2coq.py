#!/venv/bin/python
"""search2coq - fail-closed translator of the searches on the distribution function of phasegen/distributions.py to Gallina:

    TreeHeightDistribution._update               (continue the transition matrix from time u_prev in `epoch` to time u)
    TreeHeightDistribution._cum                  (1 - alpha @ T @ e)
    TreeHeightDistribution.quantile              (expanding, then bisecting search; both loops bounded by max_iter)
    TreeHeightDistribution._get_absorption_time  (doubling search for the default horizon; the warning condition)
    TreeHeightDistribution.t_max                 (the end time if given, otherwise the horizon found)

Reading of the source (trusted base of this translator; matrices, times and `expm` as in translate/loops2coq.py):
  * an `epoch` value is a position in the demography: the current epoch (end time, generator) together with the epochs that
    follow it; `self.demography.get_epoch(0)` is the first position, and `self.demography.get_epoch(epoch.end_time)` - asked of
    the epoch variable itself - is the NEXT position (epochs are contiguous; the last epoch has no end, so `u > epoch.end_time`
    is false there and the loop never asks for a position after the last one: that case returns the current values);
  * `self.state_space.update_epoch(e)` sets the epoch the state space holds and `self.state_space.S` is the generator of THAT epoch;
  * `while cond: ... else: rest` without `break` runs `rest` after the loop;
  * a `while c and i < max_iter:` loop whose body ends with `i += 1` (and does not otherwise touch i or max_iter) is a recursion on
    the fuel max_iter - i (the counter i is still carried along);
  * times are exact rationals (`a, b = 0, 1`, `b * expansion_factor`, `(a + b) / 2`); a value of the field is compared with a
    rational (`self._cum(T_b) < q`, `... > precision`, `p < self.p_absorption`) through the parameter lt_TQ x q (x < q) - for
    `x > q` the translator emits lt_QT q x, for `not p >= q` the same lt_TQ p q (no NaN in the model: NaN handling is logging);
  * the first probe time of the horizon search, `2 ** int(np.log2(np.mean(list(epoch.pop_sizes.values()))))`, is the parameter t0
    (compared textually); `self.p_absorption`, `self.max_iter`, `self.end_time`, `self.start_time` are parameters;
  * the `if cond: self._logger.warning(..)` that follows the horizon loop is returned as a second component (warning logged);
    other statements that only raise or log are skipped (listed in the header of the generated file).
"""
import argparse
import ast
import sys

import loops2coq as L
from loops2coq import Unsupported, chain, fail, is_doc, get_method

SRC_DEFAULT = '/repo/phasegen/distributions.py'
OUT_DEFAULT = '/verif/coq/theories/gen/SearchGen.v'
T0_TEXT = 't = 2 ** int(np.log2(np.mean(list(epoch.pop_sizes.values()))))'


class Fn(L.Fn):
    """additional types: esuf (term = (cur, rest) pair of Coq variables), Tval (field scalar), natc (counter), triple"""

    def __init__(self, kind):
        super().__init__(kind)
        self.counter = None

    def esuf_term(self, v):
        return f'({v[0][0]}, {v[0][1]})'

    # ------------------------------------------------------------------ expressions
    def expr(self, n, env):
        if isinstance(n, ast.Attribute):
            if isinstance(n.value, ast.Name) and n.value.id in env and env[n.value.id][1] == 'esuf' and n.attr == 'end_time':
                return (f'(fst {env[n.value.id][0][0]})', 'endtime')
            c = chain(n)
            if c == 'self.p_absorption':
                return ('p_absorption', 'Q')
            if c == 'self.max_iter':
                return ('self_max_iter', 'nat')
            if c == 'self.end_time':
                return ('self_end_time', 'optQ')
            if c == 'self.state_space.S':
                return (f'(snd {env["__ss__"][0]})', 'mat')
        if isinstance(n, ast.Constant) and isinstance(n.value, int) and not isinstance(n.value, bool) and n.value >= 0:
            return (str(n.value), 'lit')
        if isinstance(n, ast.Name) and n.id in env and env[n.id][1] == 'esuf':
            return env[n.id]
        if isinstance(n, ast.Call):
            c = chain(n.func)
            kw = {k.arg: k.value for k in n.keywords}
            if c == 'self.demography.get_epoch' and len(n.args) == 1 and not kw:
                a = n.args[0]
                if isinstance(a, ast.Constant) and a.value == 0:
                    return (('epoch0', 'rest0'), 'esuf')
                fail(n, 'get_epoch is only read as get_epoch(0) or as the pop `epoch = self.demography.get_epoch(epoch.end_time)`')
            if c == 'self._cum' and len(n.args) == 1 and not kw:
                a = self.expr(n.args[0], env)
                if a[1] == 'mat':
                    return (f'(TreeHeightDistribution_cum {a[0]})', 'Tval')
            if c == 'float' and len(n.args) == 1 and not kw:
                return self.expr(n.args[0], env)
            if c == 'self._update' and len(n.args) == 4 and not kw:
                u, up, T_, ep = (self.expr(a, env) for a in n.args)
                uq = self.asQ(u)
                upq = self.asQ(up)
                if uq and upq and T_[1] == 'mat' and ep[1] == 'esuf':
                    return (f'(TreeHeightDistribution_update {uq} {upq} {T_[0]} {self.esuf_term(ep)})', 'triple')
                fail(n, '_update must be called with (time, time, matrix, epoch)')
        if isinstance(n, ast.BinOp):
            l, r = self.expr(n.left, env), self.expr(n.right, env)
            lq, rq = self.asQ(l), self.asQ(r)
            if isinstance(n.op, ast.Mult) and l[1] == 'mat' and rq and r[1] != 'lit':
                return (f'(mscale OP (oofQ OP {rq}) {l[0]})', 'mat')
            if lq and rq and not (l[1] == 'lit' and r[1] == 'lit'):
                if isinstance(n.op, ast.Mult):
                    return (f'({lq} * {rq})%Q', 'Q')
                if isinstance(n.op, ast.Add):
                    return (f'({lq} + {rq})%Q', 'Q')
                if isinstance(n.op, ast.Sub):
                    return (f'({lq} - {rq})%Q', 'Q')
                if isinstance(n.op, ast.Div):
                    return (f'({lq} / {rq})%Q', 'Q')
            if isinstance(n.op, ast.Sub) and l[1] == r[1] == 'Tval':
                return (f'(osub OP {l[0]} {r[0]})', 'Tval')
            if isinstance(n.op, ast.Sub) and l == ('1', 'lit') and r[1] == 'T':
                return (f'(osub OP (o1 OP) {r[0]})', 'Tval')
        return super().expr(n, env)

    def asQ(self, e):
        if e[1] == 'Q':
            return e[0]
        if e[1] == 'lit':
            return f'(inject_Z {e[0]})'
        if e[1] == 'endtime':
            return f'(end_or0 {e[0]})'
        return None

    def cond(self, n, env):
        if isinstance(n, ast.BoolOp) and isinstance(n.op, ast.And):
            return '(' + ' && '.join(self.cond(v, env) for v in n.values) + ')%bool'
        if isinstance(n, ast.UnaryOp) and isinstance(n.op, ast.Not) and isinstance(n.operand, ast.Compare) and \
                len(n.operand.ops) == 1 and isinstance(n.operand.ops[0], ast.GtE):
            l, r = self.expr(n.operand.left, env), self.expr(n.operand.comparators[0], env)
            if l[1] == 'Tval' and self.asQ(r):
                return f'(lt_TQ {l[0]} {self.asQ(r)})'        # not p >= q
        if isinstance(n, ast.Compare) and len(n.ops) == 1:
            l, r = self.expr(n.left, env), self.expr(n.comparators[0], env)
            op = n.ops[0]
            if isinstance(op, ast.Gt) and self.asQ(l) and r[1] == 'endtime':
                return f'(gt_end {self.asQ(l)} {r[0]})'
            if isinstance(op, ast.Lt) and l[1] == 'Tval' and self.asQ(r):
                return f'(lt_TQ {l[0]} {self.asQ(r)})'
            if isinstance(op, ast.Gt) and l[1] == 'Tval' and self.asQ(r):
                return f'(lt_QT {self.asQ(r)} {l[0]})'
            if isinstance(op, ast.Gt) and l[1] == 'Q' and r == ('0', 'lit'):
                return f'(if Qlt_le_dec 0 {l[0]} then true else false)'
            if isinstance(op, ast.Lt) and l[1] in ('nat', 'natc') and r[1] in ('nat', 'natc'):
                return f'(Nat.ltb {l[0]} {r[0]})'
        fail(n, 'condition ' + ast.unparse(n))

    # ------------------------------------------------------------------ statements
    def assigned(self, stmts):
        out = super().assigned(stmts)
        for s in stmts:
            if isinstance(s, ast.AugAssign) and isinstance(s.target, ast.Name) and s.target.id not in out:
                out.append(s.target.id)
            if isinstance(s, ast.If):
                for x in self.assigned(s.body) + self.assigned(s.orelse):
                    if x not in out:
                        out.append(x)
            if isinstance(s, ast.While):
                for x in self.assigned(s.orelse):
                    if x not in out:
                        out.append(x)
        return out

    def flat(self, names, env):
        """Coq variables of a list of Python names (an esuf name contributes two)"""
        out = []
        for m in names:
            out += list(env[m][0]) if env[m][1] == 'esuf' else [env[m][0]]
        return out

    def tupv(self, vs):
        return vs[0] if len(vs) == 1 else '(' + ', '.join(vs) + ')'

    def patv(self, vs):
        return vs[0] if len(vs) == 1 else "'(" + ', '.join(vs) + ')'

    def rebind(self, names, env, tag):
        """fresh Coq variables for the Python names; returns (new env entries, flat list of the new variables)"""
        new, flat = {}, []
        for m in names:
            if env[m][1] == 'esuf':
                a, b = self.fresh(m + '_cur'), self.fresh(m + '_rest')
                new[m] = ((a, b), 'esuf')
                flat += [a, b]
            else:
                a = self.fresh(m)
                new[m] = (a, env[m][1])
                flat.append(a)
        return new, flat

    def bind_value(self, names_nodes, val, env, s):
        """bind Python targets (Name nodes) to the components of a value expression of matching shape"""
        if val[1] == 'triple':
            if len(names_nodes) != 3:
                fail(s, '_update returns three values')
            u_, T_, (c_, r_) = self.fresh(names_nodes[0].id), self.fresh(names_nodes[1].id), (self.fresh(names_nodes[2].id + '_cur'), self.fresh(names_nodes[2].id + '_rest'))
            env2 = dict(env, **{names_nodes[0].id: (u_, 'Q'), names_nodes[1].id: (T_, 'mat'), names_nodes[2].id: ((c_, r_), 'esuf')})
            return f"let '({u_}, {T_}, ({c_}, {r_})) := {val[0]} in\n", env2
        fail(s, 'tuple assignment from ' + val[1])

    def block(self, stmts, env, k):
        stmts = [s for s in stmts if not is_doc(s)]
        if not stmts:
            return k(env)
        s, rest = stmts[0], stmts[1:]
        nxt = lambda e: self.block(rest, e, k)
        txt = ast.unparse(s)
        # ---- skipped: guards, logging under a condition
        if isinstance(s, ast.If) and not s.orelse and len(s.body) == 1 and isinstance(s.body[0], ast.Raise):
            self.skipped.append(f'line {s.lineno}: if {ast.unparse(s.test)}: raise')
            return nxt(env)
        if isinstance(s, ast.If) and not s.orelse and all(is_doc(x) for x in s.body):
            if self.kind == 'horizon' and not getattr(self, 'in_loop', 0) and not any(isinstance(x, (ast.While, ast.For)) for x in rest) and 'warned' not in env:
                # the warning that follows the search: returned as a flag
                c = self.cond(s.test, env)
                w = self.fresh('warned')
                return f'(let {w} := {c} in\n{nxt(dict(env, warned=(w, "bool")))})'
            self.skipped.append(f'line {s.lineno}: if {ast.unparse(s.test)}: log')
            return nxt(env)
        if txt == T0_TEXT:
            self.skipped.append(f'line {s.lineno}: first probe time of the horizon search (parameter t0)')
            return nxt(dict(env, t=('t0', 'Q')))
        if isinstance(s, ast.Return):
            if isinstance(s.value, ast.Tuple):
                es = [self.expr(e, env) for e in s.value.elts]
                if [e[1] for e in es] == ['Q', 'mat', 'esuf']:
                    return f'({es[0][0]}, {es[1][0]}, {self.esuf_term(es[2])})'
                fail(s, 'tuple return')
            e = self.expr(s.value, env)
            if self.kind == 'horizon':
                if 'warned' not in env:
                    fail(s, 'the horizon search returns without the warning condition having been evaluated')
                return f'({self.asQ(e)}, {env["warned"][0]})'
            return self.asQ(e) or e[0]
        if isinstance(s, ast.Expr) and isinstance(s.value, ast.Call) and chain(s.value.func) == 'self.state_space.update_epoch':
            a = self.expr(s.value.args[0], env)
            if a[1] != 'esuf' or len(s.value.args) != 1:
                fail(s, 'update_epoch must be applied to an epoch position')
            v = self.fresh('ss')
            return f'(let {v} := {a[0][0]} in\n{nxt(dict(env, __ss__=(v, "epoch")))})'
        if isinstance(s, ast.AugAssign) and isinstance(s.op, ast.Add) and isinstance(s.target, ast.Name) and ast.unparse(s.value) == '1':
            l = self.expr(s.target, env)
            if l[1] not in ('natc',):
                fail(s, '+= 1 on a non-counter')
            nv = self.fresh(s.target.id)
            return f'(let {nv} := S {l[0]} in\n{nxt(dict(env, **{s.target.id: (nv, "natc")}))})'
        if isinstance(s, ast.Assign) and len(s.targets) == 1:
            t, val = s.targets[0], s.value
            # a, b = x, y  (element-wise)
            if isinstance(t, ast.Tuple) and isinstance(val, ast.Tuple) and len(t.elts) == len(val.elts) and all(isinstance(e, ast.Name) for e in t.elts):
                vals = [self.expr(v, env) for v in val.elts]      # right-hand side evaluated first
                env2, lets = dict(env), ''
                for nm, v in zip(t.elts, vals):
                    if v[1] == 'esuf':
                        a, b = self.fresh(nm.id + '_cur'), self.fresh(nm.id + '_rest')
                        lets += f"let '({a}, {b}) := {self.esuf_term(v)} in\n"
                        env2[nm.id] = ((a, b), 'esuf')
                    else:
                        q = self.asQ(v)
                        ty = 'Q' if (q and v[1] != 'nat') else v[1]
                        nv = self.fresh(nm.id)
                        lets += f'let {nv} := {q if ty == "Q" else v[0]} in\n'
                        env2[nm.id] = (nv, ty)
                return f'({lets}{nxt(env2)})'
            if isinstance(t, ast.Tuple) and all(isinstance(e, ast.Name) for e in t.elts):
                v = self.expr(val, env)
                lets, env2 = self.bind_value(t.elts, v, env, s)
                return f'({lets}{nxt(env2)})'
            if isinstance(t, ast.Name):
                # the pop: epoch = self.demography.get_epoch(epoch.end_time)
                if isinstance(val, ast.Call) and chain(val.func) == 'self.demography.get_epoch' and len(val.args) == 1 and \
                        ast.unparse(val.args[0]) == f'{t.id}.end_time' and env.get(t.id, (None, None))[1] == 'esuf':
                    cur, rst = env[t.id][0]
                    hd, tl = self.fresh(t.id + '_cur'), self.fresh(t.id + '_rest')
                    stop = env['__stop__'](env)
                    return (f'(match {rst} with\n | [] => {stop}\n | {hd} :: {tl} =>\n'
                            f'{nxt(dict(env, **{t.id: ((hd, tl), "esuf"), "__popped__": tl}))}\n end)')
                v = self.expr(val, env)
                if v[1] == 'esuf':
                    a, b = self.fresh(t.id + '_cur'), self.fresh(t.id + '_rest')
                    return f"(let '({a}, {b}) := {self.esuf_term(v)} in\n{nxt(dict(env, **{t.id: ((a, b), 'esuf')}))})"
                if t.id == 'i' and v == ('0', 'lit'):
                    nv = self.fresh('i')
                    return f'(let {nv} := 0%nat in\n{nxt(dict(env, i=(nv, "natc")))})'
                q = self.asQ(v)
                if q is not None and v[1] in ('Q', 'endtime', 'lit') and (v[1] != 'lit' or t.id in self.reassigned):
                    nv = self.fresh(t.id)
                    return f'(let {nv} := {q} in\n{nxt(dict(env, **{t.id: (nv, "Q")}))})'
                if v[1] in ('mat', 'Tval', 'nat', 'T'):
                    nv = self.fresh(t.id)
                    env2 = dict(env, **{t.id: (nv, 'Tval' if v[1] == 'T' else v[1])})
                    return f'(let {nv} := {v[0]} in\n{nxt(env2)})'
                fail(s, f'assignment of a value of type {v[1]}')
        if isinstance(s, ast.AugAssign) and isinstance(s.op, ast.MatMult):
            return super().block([s], env, lambda e: nxt(e))
        if isinstance(s, ast.If) and s.orelse:
            # both branches rebind the same names (tuple assignments)
            ab, ao = self.assigned(s.body), self.assigned(s.orelse)
            # what leaves the statement: every name bound before that one of the branches rebinds (a branch that does not
            # rebind a name passes its current value on)
            names = [x for x in ab + [y for y in ao if y not in ab] if x in env]
            c = self.cond(s.test, env)
            fin = lambda e: self.tupv(self.flat(names, e))
            a = self.block(s.body, env, fin)
            b = self.block(s.orelse, env, fin)
            new, flat = self.rebind(names, env, 'j')
            return f'(let {self.patv(flat)} := (if {c} then\n{a}\n else\n{b}) in\n{nxt(dict(env, **new))})'
        if isinstance(s, ast.While):
            return self.whileloop2(s, env, nxt)
        fail(s, f'statement not supported: {txt[:80]}')

    def whileloop2(self, s, env, nxt):
        body_assigned = self.assigned(s.body)
        carried = [m for m in body_assigned if m in env]
        # ---- kind 1: the loop pops the epoch position (structural recursion on the epochs that follow)
        pops = [x for x in s.body if isinstance(x, ast.Assign) and isinstance(x.value, ast.Call)
                and chain(x.value.func) == 'self.demography.get_epoch' and isinstance(x.targets[0], ast.Name)]
        if pops:
            if len(pops) != 1:
                fail(s, 'a loop may pop the epoch position once')
            it = pops[0].targets[0].id
            if env.get(it, (None, None))[1] != 'esuf':
                fail(s, 'the popped name is not an epoch position')
            others = [m for m in carried if m != it]
            f = self.fresh('while')
            pcur, prest = self.fresh(it + '_cur'), self.fresh(it + '_rest')
            benv = dict(env, **{it: ((pcur, prest), 'esuf')})
            onew, oflat = self.rebind(others, env, 'p')
            benv.update(onew)
            allc = [it] + others
            benv['__stop__'] = lambda e: self.tupv(self.flat(allc, e))
            c = self.cond(s.test, benv)

            def cont(e):
                if e.get('__popped__') is None:
                    fail(s, 'the loop body must pop the epoch position on every path')
                cur, rst = e[it][0]
                return f'{f} {rst} {cur} ' + ' '.join(self.flat(others, e))
            body = self.block(s.body, dict(benv, __popped__=None), cont)
            rnew, rflat = self.rebind(allc, env, 'r')
            env2 = dict(env, **rnew)
            loop = (f'(let {self.patv(rflat)} :=\n (fix {f} {prest} {pcur} ' + ' '.join(oflat) + f' {{struct {prest}}} :=\n'
                    f'  if {c} then\n{body}\n  else {self.tupv(self.flat(allc, benv))})\n {env[it][0][1]} {env[it][0][0]} ' + ' '.join(self.flat(others, env)) + ' in\n')
            after = self.block(s.orelse, env2, nxt) if s.orelse else nxt(env2)
            return loop + after + ')'
        # ---- kind 2: bounded by a counter (`... and i < max_iter`, body ends with `i += 1`)
        if s.orelse:
            fail(s, 'while/else on a counter loop')
        test = s.test
        if not (isinstance(test, ast.BoolOp) and isinstance(test.op, ast.And) and len(test.values) == 2):
            fail(s, 'a search loop must be `while <condition> and i < max_iter`')
        cnt = test.values[1]
        if not (isinstance(cnt, ast.Compare) and len(cnt.ops) == 1 and isinstance(cnt.ops[0], ast.Lt) and isinstance(cnt.left, ast.Name)
                and env.get(cnt.left.id, (None, None))[1] == 'natc'):
            fail(s, 'the second conjunct of a search loop must be `i < <max_iter>`')
        i = cnt.left.id
        bound = self.expr(cnt.comparators[0], env)
        if bound[1] != 'nat':
            fail(s, 'the bound of a search loop must be a natural number')
        real_body = [x for x in s.body if not is_doc(x)]
        if not (real_body and ast.unparse(real_body[-1]) == f'{i} += 1') or \
                any(i in [getattr(nn, 'id', None) for nn in ast.walk(x) if isinstance(nn, ast.Name) and isinstance(nn.ctx, ast.Store)] for x in real_body[:-1]):
            fail(s, f'the body of a search loop must end with `{i} += 1` and not assign {i} elsewhere')
        f = self.fresh('while')
        fuel = self.fresh('fuel')
        pnew, pflat = self.rebind(carried, env, 'p')
        benv = dict(env, **pnew)
        c = self.cond(test.values[0], benv)
        self.in_loop = getattr(self, 'in_loop', 0) + 1
        body = self.block(s.body, benv, lambda e: f'{f} {fuel}\' ' + ' '.join(self.flat(carried, e)))
        self.in_loop -= 1
        rnew, rflat = self.rebind(carried, env, 'r')
        loop = (f'(let {self.patv(rflat)} :=\n (fix {f} {fuel} ' + ' '.join(pflat) + f' {{struct {fuel}}} :=\n'
                f'  match {fuel} with\n  | O => {self.tupv(pflat)}\n  | S {fuel}\' =>\n  if {c} then\n{body}\n  else {self.tupv(pflat)}\n  end)\n'
                f' ({bound[0]} - {env[i][0]})%nat ' + ' '.join(self.flat(carried, env)) + ' in\n')
        return loop + nxt(dict(env, **rnew)) + ')'


HEADER = '''(* GENERATED FILE - DO NOT EDIT.  Regenerated on every run of the checks that depend on the searches on the distribution
   function by /verif/translate/search2coq.py (Python `ast`, fail-closed) from phasegen/distributions.py.
   The equivalence with the hand-written model (model/Loop.v `advance`, model/Search.v) is proved in proofs/GenSearchEquiv.v.

   Translated: TreeHeightDistribution._update, _cum, quantile, _get_absorption_time, t_max.
   Skipped statements (guards that raise, logging, the first probe time of the horizon search):
%s
   Reading of the source: see the docstring of the translator. *)
From Coq Require Import ZArith QArith List Arith Bool.
From PG Require Import base.Ops base.Perm model.CoalModels model.Matrix model.Loop model.PhaseType gen.NpLoops.
Import ListNotations.

Section Gen.
  Context {T : Type} (OP : Ops T).
  Variable expm : mat (T:=T) -> mat (T:=T).
  Variable lt_TQ : T -> Q -> bool.          (* x < q *)
  Variable lt_QT : Q -> T -> bool.          (* q < x *)
  Variables (n_states : nat) (alpha e : vec (T:=T)).
  Variables (epoch0 : epoch_t (T:=T)) (rest0 : list (epoch_t (T:=T))).     (* self.demography.get_epoch(0) and what follows *)
'''


def translate(src_text):
    tree = ast.parse(src_text)
    imports = {}
    for s in tree.body:
        if isinstance(s, ast.ImportFrom):
            for a in s.names:
                imports[a.asname or a.name] = (s.module, a.name)
        elif isinstance(s, ast.Import):
            for a in s.names:
                imports[a.asname or a.name] = (a.name, None)
    for k, v in {'np': ('numpy', None), 'Backend': ('expm', 'Backend')}.items():
        if imports.get(k) != v:
            raise Unsupported(f'name {k} is not bound to {v} (found {imports.get(k)})')
    binds = [ast.unparse(s) for s in tree.body if isinstance(s, ast.Assign) and any(isinstance(t, ast.Name) and t.id == 'expm' for t in s.targets)]
    if binds != ['expm = Backend.expm'] or 'expm' in imports:
        raise Unsupported(f'expm is not bound by `expm = Backend.expm` (found {binds})')
    out, skipped = [], []
    deco = lambda f: sorted(ast.unparse(d) for d in f.decorator_list)
    # ---- _cum
    f = get_method(tree, 'TreeHeightDistribution', '_cum')
    if [ast.unparse(s) for s in f.body if not is_doc(s)] != ['return float(1 - self.state_space.alpha @ T @ self._e)'] or deco(f):
        fail(f, '_cum: unexpected body')
    g = get_method(tree, 'TreeHeightDistribution', '_e')
    if [ast.unparse(s) for s in g.body if not is_doc(s)] != ['return self.reward._get(self.state_space)'] or deco(g) != ['cached_property']:
        fail(g, '_e: unexpected body')
    out.append('  (* TreeHeightDistribution._cum (with _e = the reward vector e) *)\n'
               '  Definition TreeHeightDistribution_cum (T_ : mat (T:=T)) : T := osub OP (o1 OP) (dot OP alpha (mvec OP T_ e)).\n')
    # ---- _update
    f = get_method(tree, 'TreeHeightDistribution', '_update')
    if [a.arg for a in f.args.args] != ['self', 'u', 'u_prev', 'T', 'epoch'] or deco(f):
        fail(f, '_update: unexpected signature')
    fn = Fn('update')
    fn.reassigned = L.multi_assigned(f)
    env = {'u': ('u', 'Q'), 'u_prev': ('u_prev', 'Q'), 'T': ('T_', 'mat'), 'epoch': (('epoch_cur', 'epoch_rest'), 'esuf'),
           '__stop__': lambda e: fail(f, 'pop outside a loop')}
    term = fn.block(f.body, env, lambda e: fail(f, '_update can fall off its end'))
    out.append('  (* TreeHeightDistribution._update *)\n  Definition TreeHeightDistribution_update (u u_prev : Q) (T_ : mat (T:=T))\n'
               '             (epoch : epoch_t (T:=T) * list (epoch_t (T:=T))) : Q * mat (T:=T) * (epoch_t (T:=T) * list (epoch_t (T:=T))) :=\n'
               "  let '(epoch_cur, epoch_rest) := epoch in\n" + term + '.\n')
    skipped += ['     _update ' + x for x in fn.skipped]
    # ---- quantile
    f = get_method(tree, 'TreeHeightDistribution', 'quantile')
    names = [a.arg for a in f.args.args]
    dfl = [ast.unparse(d) for d in f.args.defaults]
    if names != ['self', 'q', 'expansion_factor', 'precision', 'max_iter'] or dfl != ['2', '1e-05', '1000'] or deco(f) != ['cache']:
        fail(f, 'quantile: unexpected signature, defaults or decorators')
    fn = Fn('quantile')
    fn.reassigned = L.multi_assigned(f) | {'a', 'b'}
    env = {'q': ('q', 'Q'), 'expansion_factor': ('expansion_factor', 'Q'), 'precision': ('precision', 'Q'), 'max_iter': ('max_iter', 'nat'),
           '__stop__': lambda e: fail(f, 'pop outside a loop')}
    term = fn.block(f.body, env, lambda e: fail(f, 'quantile can fall off its end'))
    out.append('  (* TreeHeightDistribution.quantile (defaults: expansion_factor = 2, precision = 1e-5, max_iter = 1000) *)\n'
               '  Definition TreeHeightDistribution_quantile (q expansion_factor precision : Q) (max_iter : nat) : Q :=\n' + term + '.\n')
    skipped += ['     quantile ' + x for x in fn.skipped]
    # ---- _get_absorption_time
    f = get_method(tree, 'TreeHeightDistribution', '_get_absorption_time')
    if [a.arg for a in f.args.args] != ['self'] or deco(f):
        fail(f, '_get_absorption_time: unexpected signature')
    fn = Fn('horizon')
    fn.reassigned = L.multi_assigned(f) | {'expansion_factor'}
    env = {'__stop__': lambda e: fail(f, 'pop outside a loop')}
    term = fn.block(f.body, env, lambda e: fail(f, '_get_absorption_time can fall off its end'))
    out.append('  (* TreeHeightDistribution._get_absorption_time: (time used, warning logged) *)\n'
               '  Definition TreeHeightDistribution_get_absorption_time (t0 p_absorption : Q) (self_max_iter : nat) : Q * bool :=\n' + term + '.\n')
    skipped += ['     _get_absorption_time ' + x for x in fn.skipped]
    # ---- t_max
    f = get_method(tree, 'TreeHeightDistribution', 't_max')
    body = [s for s in f.body if not is_doc(s)]
    want = ['if self.end_time is not None:\n    return self.end_time', 't_abs = self._get_absorption_time()', None, 'return t_abs']
    got = [ast.unparse(s) for s in body]
    if deco(f) != ['cached_property'] or len(got) != 4 or got[0] != want[0] or got[1] != want[1] or got[3] != want[3] or \
            not (isinstance(body[2], ast.If) and ast.unparse(body[2].test) == 't_abs < self.start_time' and len(body[2].body) == 1 and isinstance(body[2].body[0], ast.Raise)):
        fail(f, 't_max: unexpected body')
    skipped.append(f'     t_max line {body[2].lineno}: if t_abs < self.start_time: raise')
    out.append('  (* TreeHeightDistribution.t_max: the end time if one was given, otherwise the horizon found by the search *)\n'
               '  Definition TreeHeightDistribution_t_max (self_end_time : option Q) (t0 p_absorption : Q) (self_max_iter : nat) : Q :=\n'
               '    match self_end_time with\n    | Some en => en\n    | None => fst (TreeHeightDistribution_get_absorption_time t0 p_absorption self_max_iter)\n    end.\n')
    text = HEADER % '\n'.join(skipped) + '\n' + '\n'.join(out) + 'End Gen.\n'
    return text, ['TreeHeightDistribution.' + m for m in ('_update', '_cum', 'quantile', '_get_absorption_time', 't_max')]


def main():
    ap = argparse.ArgumentParser()
    ap.add_argument('--src', default=SRC_DEFAULT)
    ap.add_argument('--out', default=None)
    a = ap.parse_args()
    try:
        text, funcs = translate(open(a.src).read())
    except Unsupported as e:
        print('UNSUPPORTED:', e, file=sys.stderr)
        sys.exit(2)
    if a.out:
        open(a.out, 'w').write(text)
    else:
        sys.stdout.write(text)


if __name__ == '__main__':
    main()
